"""Engine B: AST -> z3 symbolic execution of loop-free scalar kernels of topsim (DESIGN 3.2).

The function source is read from the real function object (inspect.getsource on what /repo currently
contains) on every run; unsupported syntax raises UnsupportedSyntax (-> harness error, never a silent pass).
Python int -> z3 Int (mathematical integers).  Python float division a / b is kept as an exact fraction
Frac(num, den) *tagged as unrounded*; it may only be consumed through int() (lemma L1), comparison with a
decimal constant (lemma L2) or exact arithmetic under a divisibility side condition (lemmas L3/L4); every use
is recorded in Exec.lemmas so that the obligation states which cut it relies on.
"""
import ast, inspect, textwrap
import z3


class UnsupportedSyntax(Exception):
    pass


class Rec:
    """record with symbolic attributes (self, machine, env, observation ...)"""

    def __init__(self, **kw):
        self.__dict__['a'] = dict(kw)

    def get(self, k):
        if k not in self.a:
            raise UnsupportedSyntax(f"attribute {k} not modelled")
        return self.a[k]

    def set(self, k, v):
        self.a[k] = v

    def copy(self, memo):
        if id(self) in memo:
            return memo[id(self)]
        r = type(self)()
        memo[id(self)] = r
        for k, v in self.a.items():
            r.a[k] = _copy(v, memo)
        return r


def _copy(v, memo):
    if isinstance(v, Rec):
        return v.copy(memo)
    if isinstance(v, list):
        return [_copy(x, memo) for x in v]
    if isinstance(v, dict):
        return {k: _copy(x, memo) for k, x in v.items()}
    return v


class Frac:
    """unrounded quotient num/den of Int terms, den > 0 assumed by the obligation"""

    def __init__(self, n, d):
        self.n, self.d = n, d


def _int(v):
    return z3.IntVal(v) if isinstance(v, (int, bool)) and not isinstance(v, bool) else v


def is_sym(v):
    return z3.is_expr(v)


class Outcome:
    def __init__(self, kind, value=None):
        self.kind, self.value = kind, value      # 'return' | 'raise' | 'fall'


class State:
    def __init__(self, env, pc, clock, log):
        self.env, self.pc, self.clock, self.log = env, pc, clock, log

    def fork(self):
        memo = {}
        return State({k: _copy(v, memo) for k, v in self.env.items()}, list(self.pc), self.clock, list(self.log))


class Exec:
    def __init__(self, methods=None, glob=None):
        self.methods = methods or {}
        self.globals = glob or {}
        self.lemmas = set()
        self.side = []            # exactness side conditions (divisibility) used by L3/L4
        self.queries = 0
        self.fvalue = {}          # decimal constants compared against fractions -> (p, q)

    # ------------------------------------------------------------------ helpers
    def feasible(self, pc):
        s = z3.Solver()
        s.add(*pc)
        self.queries += 1
        return s.check() != z3.unsat

    def arith(self, op, l, r):
        if isinstance(l, Frac) or isinstance(r, Frac):
            self.lemmas.add('L3/L4')
            if op in ('+', '-'):
                if isinstance(l, Frac) and isinstance(r, Frac):
                    if l.d is r.d or z3.eq(_int(l.d), _int(r.d)):
                        n = l.n + r.n if op == '+' else l.n - r.n
                        return Frac(n, l.d)
                    n = l.n * r.d + r.n * l.d if op == '+' else l.n * r.d - r.n * l.d
                    return Frac(n, l.d * r.d)
                if isinstance(l, Frac):
                    return Frac(l.n + r * l.d if op == '+' else l.n - r * l.d, l.d)
                return Frac(l * r.d + r.n if op == '+' else l * r.d - r.n, r.d)
            raise UnsupportedSyntax('fraction in * or //')
        if isinstance(l, float) or isinstance(r, float):
            raise UnsupportedSyntax('float arithmetic')
        if op == '+':
            return l + r
        if op == '-':
            return l - r
        if op == '*':
            return l * r
        if op == '//':
            if is_sym(l) or is_sym(r):
                return _int(l) / _int(r)          # z3 Int '/' == floor division for a positive divisor
            return l // r
        if op == '/':
            return Frac(_int(l), _int(r))
        raise UnsupportedSyntax(op)

    def compare(self, op, l, r):
        if isinstance(l, Frac) or isinstance(r, Frac):
            if isinstance(r, float) or isinstance(l, float):
                # a / b  <cmp>  decimal constant  -> lemma L2 (rational comparison equals the binary64 one)
                self.lemmas.add('L2')
                if isinstance(l, float):
                    raise UnsupportedSyntax('constant on the left of a fraction comparison')
                p, q = float(r).as_integer_ratio()
                from fractions import Fraction
                fr = Fraction(str(r))
                p, q = fr.numerator, fr.denominator
                ln, rn = l.n * q, p * l.d
            else:
                self.lemmas.add('L3/L4')
                if not isinstance(l, Frac):
                    l = Frac(_int(l), z3.IntVal(1))
                if not isinstance(r, Frac):
                    r = Frac(_int(r), z3.IntVal(1))
                if z3.eq(_int(l.d), _int(r.d)):
                    ln, rn = l.n, r.n
                else:
                    ln, rn = l.n * r.d, r.n * l.d
            l, r = ln, rn
        if op is ast.Lt:
            return l < r
        if op is ast.LtE:
            return l <= r
        if op is ast.Gt:
            return l > r
        if op is ast.GtE:
            return l >= r
        if op is ast.Eq:
            if isinstance(l, str) or isinstance(r, str):
                if is_sym(l) and z3.is_string(l):
                    return l == z3.StringVal(r)
                if is_sym(r) and z3.is_string(r):
                    return r == z3.StringVal(l)
                if is_sym(l) or is_sym(r):
                    return z3.BoolVal(False)       # int == 'str' is False in Python
            return l == r
        if op is ast.NotEq:
            v = self.compare(ast.Eq, l, r)
            return z3.Not(v) if is_sym(v) else (not v)
        if op is ast.Is:
            return l is r
        if op is ast.IsNot:
            return l is not r
        raise UnsupportedSyntax(op.__name__)

    # ------------------------------------------------------------------ expressions
    def ev(self, n, st):
        if isinstance(n, ast.Constant):
            return n.value
        if isinstance(n, ast.Name):
            if n.id in st.env:
                return st.env[n.id]
            if n.id in self.globals:
                return self.globals[n.id]
            raise UnsupportedSyntax(f"name {n.id}")
        if isinstance(n, ast.Attribute):
            base = self.ev(n.value, st)
            if isinstance(base, Rec):
                return base.get(n.attr)
            raise UnsupportedSyntax('attribute of non-record: ' + ast.unparse(n))
        if isinstance(n, ast.Subscript):
            base = self.ev(n.value, st)
            key = self.ev(n.slice, st)
            if isinstance(base, (dict, list)) and not is_sym(key):
                return base[key]
            raise UnsupportedSyntax('subscript: ' + ast.unparse(n))
        if isinstance(n, ast.BinOp):
            l, r = self.ev(n.left, st), self.ev(n.right, st)
            op = {ast.Add: '+', ast.Sub: '-', ast.Mult: '*', ast.FloorDiv: '//', ast.Div: '/'}.get(type(n.op))
            if op is None:
                raise UnsupportedSyntax(ast.dump(n.op))
            return self.arith(op, l, r)
        if isinstance(n, ast.Compare) and len(n.ops) == 1:
            return self.compare(type(n.ops[0]), self.ev(n.left, st), self.ev(n.comparators[0], st))
        if isinstance(n, ast.BoolOp):
            vs = [self.ev(v, st) for v in n.values]
            if not any(is_sym(v) for v in vs):
                if isinstance(n.op, ast.And):
                    return all(vs)
                return any(vs)
            def is_intlike(v):
                return (is_sym(v) and z3.is_int(v)) or (isinstance(v, int) and not isinstance(v, bool))
            if any(is_intlike(v) for v in vs):
                # Python's value semantics: `a or b` is a if a is truthy else b (and dually); integers only
                if not all(is_intlike(v) for v in vs):
                    raise UnsupportedSyntax('and/or over mixed integer and non-integer operands')
                acc = _int(vs[-1])
                for v in reversed(vs[:-1]):
                    v = _int(v)
                    acc = z3.If(v != 0, v, acc) if isinstance(n.op, ast.Or) else z3.If(v != 0, acc, v)
                return acc
            vs = [v if is_sym(v) else z3.BoolVal(bool(v)) for v in vs]
            return z3.And(*vs) if isinstance(n.op, ast.And) else z3.Or(*vs)
        if isinstance(n, ast.UnaryOp) and isinstance(n.op, ast.Not):
            v = self.ev(n.operand, st)
            return z3.Not(v) if is_sym(v) else (not v)
        if isinstance(n, ast.UnaryOp) and isinstance(n.op, ast.USub):
            return -self.ev(n.operand, st)
        if isinstance(n, ast.IfExp):
            c = self.ev(n.test, st)
            if not is_sym(c):
                return self.ev(n.body if c else n.orelse, st)
            a, b = self.ev(n.body, st), self.ev(n.orelse, st)
            if isinstance(a, (Frac, Rec)) or isinstance(b, (Frac, Rec)) or isinstance(a, float) or isinstance(b, float):
                raise UnsupportedSyntax('conditional expression over fractions/records')
            if isinstance(a, str) and isinstance(b, str):
                return z3.If(c, z3.StringVal(a), z3.StringVal(b))
            if a is None or b is None or isinstance(a, str) or isinstance(b, str):
                raise UnsupportedSyntax('conditional expression of mixed kinds')
            return z3.If(c, _int(a), _int(b))
        if isinstance(n, ast.Call):
            return self.call(n, st)
        if isinstance(n, ast.JoinedStr):
            return '<fstring>'
        if isinstance(n, ast.Tuple):
            return tuple(self.ev(e, st) for e in n.elts)
        raise UnsupportedSyntax(ast.dump(n)[:120])

    def call(self, n, st):
        f = n.func
        if isinstance(f, ast.Name):
            if f.id == 'int':
                v = self.ev(n.args[0], st)
                if isinstance(v, Frac):
                    self.lemmas.add('L1')
                    return v.n / v.d
                return v
            if f.id == 'round':
                v = self.ev(n.args[0], st)
                if isinstance(v, Frac):
                    raise UnsupportedSyntax('round of a fraction')
                return v                       # round(int) == int
            if f.id in ('max', 'min'):
                a, b = [_int(self.ev(x, st)) for x in n.args]
                if isinstance(a, Frac) or isinstance(b, Frac):
                    raise UnsupportedSyntax('max of fractions')
                return z3.If(a >= b, a, b) if f.id == 'max' else z3.If(a <= b, a, b)
            if f.id == 'isinstance':
                v = self.ev(n.args[0], st)
                ty = n.args[1].id
                if ty == 'int':
                    return bool(is_sym(v) and z3.is_int(v)) or (isinstance(v, int) and not isinstance(v, bool))
                raise UnsupportedSyntax('isinstance ' + ty)
            if f.id in self.globals and callable(self.globals[f.id]):
                return self.globals[f.id](*[self.ev(x, st) for x in n.args], **{k.arg: self.ev(k.value, st) for k in n.keywords})
        if isinstance(f, ast.Attribute):
            if f.attr in ('debug', 'info', 'warning'):
                return None
            base = self.ev(f.value, st)
            if isinstance(f.value, ast.Name) and f.value.id == 'self' and f.attr in self.methods:
                args = [self.ev(x, st) for x in n.args]
                return self.inline(self.methods[f.attr], [st.env['self']] + args, st)
            if isinstance(base, Rec):
                target = base.get(f.attr)
                if callable(target):
                    return target(*[self.ev(x, st) for x in n.args])
        raise UnsupportedSyntax('call: ' + ast.unparse(n)[:100])

    def inline(self, fdef, args, st):
        """inline a helper method that only returns a value (may branch); result merged with ite.
        Side effects on records inside helpers are not supported (checked)."""
        sub = State({}, list(st.pc), st.clock, [])
        for a, v in zip(fdef.args.args, args):
            sub.env[a.arg] = v
        defaults = fdef.args.defaults
        for a, d in zip(reversed(fdef.args.args), reversed(defaults)):
            if a.arg not in sub.env:
                sub.env[a.arg] = self.ev(d, sub)
        outs = self.block(fdef.body, sub)
        val = None
        for (s2, o) in outs:
            if o.kind != 'return':
                raise UnsupportedSyntax(f'helper {fdef.name} does not return on every path')
            extra = s2.pc[len(st.pc):]
            cond = z3.And(*extra) if extra else z3.BoolVal(True)
            v = o.value
            if isinstance(v, Frac):
                if len(outs) > 1:
                    raise UnsupportedSyntax('branching helper returning a fraction')
                return v
            val = _int(v) if val is None else z3.If(cond, _int(v), val)
        return val

    def is_self_call(self, n):
        return (isinstance(n, ast.Call) and isinstance(n.func, ast.Attribute) and isinstance(n.func.value, ast.Name)
                and n.func.value.id == 'self' and n.func.attr in self.methods)

    def inline_paths(self, n, st):
        """paths of an inlined helper call as [(extra path condition, returned value)] (values may be fractions)"""
        fdef = self.methods[n.func.attr]
        args = [st.env['self']] + [self.ev(x, st) for x in n.args]
        sub = State({}, list(st.pc), st.clock, [])
        for a, v in zip(fdef.args.args, args):
            sub.env[a.arg] = v
        outs = []
        for (s2, o) in self.block(fdef.body, sub):
            if o.kind != 'return':
                raise UnsupportedSyntax(f'helper {fdef.name} does not return on every path')
            outs.append((s2.pc[len(st.pc):], o.value))
        return outs

    # ------------------------------------------------------------------ statements
    def run(self, fdef, args):
        st = State({}, [], z3.IntVal(0), [])
        for a, v in zip(fdef.args.args, args):
            st.env[a.arg] = v
        for a, d in zip(reversed(fdef.args.args), reversed(fdef.args.defaults)):
            if a.arg not in st.env:
                st.env[a.arg] = self.ev(d, st)
        return self.block(fdef.body, st)

    def block(self, stmts, st):
        if not stmts:
            return [(st, Outcome('fall'))]
        res = []
        for (s1, o) in self.stmt(stmts[0], st):
            if o.kind == 'fall':
                res += self.block(stmts[1:], s1)
            else:
                res.append((s1, o))
        return res

    def assign(self, t, v, st):
        if isinstance(t, ast.Name):
            st.env[t.id] = v
        elif isinstance(t, ast.Attribute):
            base = self.ev(t.value, st)
            if not isinstance(base, Rec):
                raise UnsupportedSyntax('assign to attribute of non-record')
            base.set(t.attr, v)
        elif isinstance(t, ast.Tuple) and isinstance(v, tuple) and len(v) == len(t.elts):
            for tt, vv in zip(t.elts, v):
                self.assign(tt, vv, st)
        else:
            raise UnsupportedSyntax('assign target ' + ast.unparse(t))

    def stmt(self, s, st):
        fall = [(st, Outcome('fall'))]
        if isinstance(s, ast.Expr) and isinstance(s.value, ast.Constant):
            return fall
        if isinstance(s, ast.Expr) and isinstance(s.value, ast.Yield):
            c = s.value.value
            if isinstance(c, ast.Call) and isinstance(c.func, ast.Attribute) and c.func.attr == 'timeout':
                if self.is_self_call(c.args[0]):
                    out = []
                    for extra, d in self.inline_paths(c.args[0], st):
                        s2 = st.fork()
                        s2.pc += extra
                        s2.log.append(('timeout', d))
                        s2.clock = self.arith('+', s2.clock, d)
                        s2.env['env'].set('now', s2.clock)
                        out.append((s2, Outcome('fall')))
                    return out
                d = self.ev(c.args[0], st)
                st.log.append(('timeout', d))
                st.clock = self.arith('+', st.clock, d)
                st.env['env'].set('now', st.clock)
                return fall
            raise UnsupportedSyntax('yield of something else than env.timeout')
        if isinstance(s, ast.Expr):
            self.ev(s.value, st)
            return fall
        if isinstance(s, ast.Assign) and len(s.targets) == 1:
            self.assign(s.targets[0], self.ev(s.value, st), st)
            return fall
        if isinstance(s, ast.AugAssign):
            cur = self.ev(s.target, st)
            v = self.ev(s.value, st)
            op = {ast.Add: '+', ast.Sub: '-', ast.Mult: '*'}.get(type(s.op))
            if op is None:
                raise UnsupportedSyntax('augassign op')
            self.assign(s.target, self.arith(op, cur, v), st)
            return fall
        if isinstance(s, ast.Return):
            return [(st, Outcome('return', self.ev(s.value, st) if s.value else None))]
        if isinstance(s, ast.Raise):
            return [(st, Outcome('raise', ast.unparse(s.exc).split('(')[0] if s.exc else 'reraise'))]
        if isinstance(s, ast.Pass):
            return fall
        if isinstance(s, ast.For):
            it = self.ev(s.iter, st)
            if not isinstance(it, (list, tuple)):
                raise UnsupportedSyntax('for over non-concrete sequence')
            states = [st]
            for item in it:
                nxt = []
                for cur in states:
                    self.assign(s.target, item, cur)
                    for (s2, o) in self.block(s.body, cur):
                        if o.kind != 'fall':
                            raise UnsupportedSyntax('return/raise inside for')
                        nxt.append(s2)
                states = nxt
            return [(x, Outcome('fall')) for x in states]
        if isinstance(s, ast.If):
            c = self.ev(s.test, st)
            if not is_sym(c):
                return self.block(s.body if c else s.orelse, st)
            if z3.is_true(c):
                return self.block(s.body, st)
            if z3.is_false(c):
                return self.block(s.orelse, st)
            out = []
            for branch, cond in ((s.body, c), (s.orelse, z3.Not(c))):
                s2 = st.fork()
                s2.pc.append(cond)
                if self.feasible(s2.pc):
                    out += self.block(branch, s2)
            return out
        raise UnsupportedSyntax(type(s).__name__ + ': ' + ast.unparse(s)[:80])


def encoding(fn, *a, **k):
    """run an encoding step; anything the executor cannot digest (not only explicit UnsupportedSyntax) means
    'the current source is outside the statement subset' -> inconclusive, never a verdict"""
    try:
        return fn(*a, **k)
    except UnsupportedSyntax:
        raise
    except Exception as ex:           # noqa
        raise UnsupportedSyntax(f'{type(ex).__name__}: {ex}')


def methods_of(cls):
    """name -> FunctionDef, parsed from the class's CURRENT source"""
    src = textwrap.dedent(inspect.getsource(cls))
    tree = ast.parse(src).body[0]
    return {n.name: n for n in tree.body if isinstance(n, ast.FunctionDef)}


def fdef_of(fn):
    return ast.parse(textwrap.dedent(inspect.getsource(fn))).body[0]


class Obligations:
    """collects unsat-queries; decides with z3 (python API) and, as a second opinion, the cvc5 binary"""

    def __init__(self, workdir='/verif/.work/smt'):
        import os
        os.makedirs(workdir, exist_ok=True)
        self.workdir = workdir
        self.items = []

    def add(self, name, assumptions, negated_goal, lemmas=(), timeout_ms=60000):
        self.items.append(dict(name=name, assumptions=list(assumptions), goal=negated_goal, lemmas=sorted(lemmas), timeout=timeout_ms))

    def discharge(self, second_opinion=True):
        import subprocess, time, os
        out = []
        for k, it in enumerate(self.items):
            s = z3.Solver()
            s.set('timeout', it['timeout'])
            s.add(*it['assumptions'])
            s.add(it['goal'])
            t = time.perf_counter()
            r = str(s.check())
            dt = time.perf_counter() - t
            rec = {'name': it['name'], 'z3': r, 'z3_s': round(dt, 3), 'lemmas': it['lemmas']}
            if r == 'sat':
                m = s.model()
                rec['model'] = {str(d): str(m[d]) for d in m.decls()}
            if second_opinion and r == 'unsat':
                path = os.path.join(self.workdir, f"ob_{os.getpid()}_{k}.smt2")
                with open(path, 'w') as f:
                    f.write('(set-logic ALL)\n' + s.to_smt2())
                try:
                    p = subprocess.run(['/usr/bin/cvc5', '--tlimit=20000', path], capture_output=True, text=True, timeout=30)
                    ans = (p.stdout.strip().splitlines() or ['?'])[0]
                    if '(error' in p.stdout or '(error' in p.stderr:
                        ans = 'error'
                except subprocess.TimeoutExpired:
                    ans = 'timeout'
                rec['cvc5'] = ans
                os.remove(path)
            out.append(rec)
        return out
