"""Runs a non-CrossHair solver job (smtkit obligations, FP lemmas, hash-seed search ...) in a child process.
python -m vk.pyjob '<json spec>' ; the job function returns the result dict."""
import sys, json, importlib, traceback, logging
from time import perf_counter as _pc
sys.setrecursionlimit(10000)
logging.disable(logging.CRITICAL)

if __name__ == '__main__':
    spec = json.loads(sys.argv[1]); t0 = _pc()
    res = {'shard': spec.get('name'), 'module': spec['module'], 'fn': spec['fn'], 'pin': spec.get('pin', {}), 'kind': 'py', 'twin': bool(spec.get('twin'))}
    try:
        mod = importlib.import_module(spec['module'])
        if hasattr(mod, 'PIN'):
            mod.PIN.clear(); mod.PIN.update(spec.get('pin', {}))
        from vk import wit
        wit.KNOWN = set(spec.get('known_tags', []))
        out = getattr(mod, spec['fn'])(spec)
        res.update(out)
    except BaseException as ex:
        from vk.smtkit import UnsupportedSyntax
        if isinstance(ex, UnsupportedSyntax):
            # the current source of the kernel is outside Engine B's statement subset (e.g. after a refactoring): no verdict
            # from this job - reported as inconclusive, never as a pass and never as a violation; Engine A shards still decide
            res['status'] = 'INCOMPLETE'; res['paths'] = 0; res['queries'] = 0
            res['detail'] = f'Engine B cannot encode the current source: {ex}'
        else:
            res['status'] = 'ERROR'; res['error'] = ''.join(traceback.format_exception(type(ex), ex, ex.__traceback__))[-3000:]
    res['wall_s'] = round(_pc() - t0, 2)
    print('RESULT ' + json.dumps(res, default=str), flush=True)
