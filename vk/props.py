"""property id -> harness modules whose shards decide it"""
PROPS = {
    'C02': {'modules': ['harness.h_c02']},
}
