"""property id -> harness modules whose shards decide it"""
PROPS = {
    'C02': {'modules': ['harness.h_c02']},
    'C18': {'modules': ['harness.h_c18']},
    'C19': {'modules': ['harness.h_c19']},
    'C14': {'modules': ['harness.h_c14']},
    'C15': {'modules': ['harness.h_c15']},
    'C06': {'modules': ['harness.k_c06', 'harness.h_c06']},
    'C04': {'modules': ['harness.p_sim']},
    'C12': {'modules': ['harness.p_sim']},
    'C13': {'modules': ['harness.p_sim']},
    'C11': {'modules': ['harness.h_c11']},
    'C05': {'modules': ['harness.p_sim']},
    'C07': {'modules': ['harness.h_c07', 'harness.p_sim']},
    'C08': {'modules': ['harness.h_c08', 'harness.p_sim']},
    'C16': {'modules': ['harness.h_c16']},
    'C09': {'modules': ['harness.h_c09', 'harness.p_sim']},
}
