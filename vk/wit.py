"""Harness-side helpers that are safe to call from traced (symbolic) code.

Nothing here may call time/random/hash-of-symbolic/I-O (DESIGN 3.1: instrumentation
must never call a function CrossHair patches).
"""
TWIN = False          # vacuity twin: the contract is falsified as soon as the interesting point is reached
KNOWN = set()         # violation tags of OPEN known findings: not asserted (every other tag is)
MAXW = 6
WITNESSES = []        # concrete inputs of some explored paths (solver model of the path condition)
POINTS = {}           # reach-point name -> number of paths that hit it (concrete counters)
_reached = [False]


def begin():
    _reached[0] = False


def reach(name='point'):
    """mark the interesting point of the harness (an allocation attempted, a transfer took >=2 steps ...)"""
    _reached[0] = True
    POINTS[name] = POINTS.get(name, 0) + 1


def verdict(tag):
    """value of the harness contract: True iff no (unlisted) violation tag on this path"""
    if TWIN:
        return not _reached[0]
    return tag is None or tag in KNOWN


def pick(lst, i):
    """lst[i] for a possibly symbolic i without handing a symbolic index to C code"""
    for k, v in enumerate(lst):
        if i == k:
            return v
    return lst[-1]


def concretize(v, lo, hi):
    """value of a (possibly symbolic) int in [lo, hi] as a concrete int, by branching (one path per value)"""
    for k in range(lo, hi + 1):
        if v == k:
            return k
    return hi


def native(fn, *args):
    """Call fn(*args) with CrossHair's tracer switched off when every argument is already a concrete value
    (the harness has case-split its time-like inputs by branching, each case being one solver-checked path).
    The body then runs as ordinary Python - same code, ~1000x faster.  With a symbolic argument left the
    call stays traced."""
    try:
        from crosshair.tracers import NoTracing, is_tracing
    except Exception:          # pragma: no cover
        return fn(*args)
    if not is_tracing():
        return fn(*args)
    with NoTracing():
        concrete = all(_is_concrete(a) for a in args)
        if concrete:
            return fn(*args)
    return fn(*args)


def _is_concrete(a):
    if type(a) in (int, bool, str, float, type(None)):
        return True
    if type(a) in (list, tuple):
        return all(_is_concrete(x) for x in a)
    if type(a) is dict:
        return all(_is_concrete(k) and _is_concrete(v) for k, v in a.items())
    return False


def note(tag=None, **kw):
    """record a concrete witness of the current path without constraining it"""
    if len(WITNESSES) >= MAXW:
        return
    try:
        from crosshair.tracers import NoTracing, is_tracing
    except Exception:          # pragma: no cover
        WITNESSES.append({k: _plain(v) for k, v in kw.items()})
        return
    if not is_tracing():
        w = {k: _plain(v) for k, v in kw.items()}
        w['_tag'] = tag
        WITNESSES.append(w)
        return
    with NoTracing():
        try:
            import z3
            from crosshair.statespace import context_statespace
            sp = context_statespace()
            if str(sp.solver.check()) != 'sat':
                return
            m = sp.solver.model()
            out = {}
            for k, v in kw.items():
                var = getattr(v, 'var', None)
                if var is None or not z3.is_expr(var):
                    out[k] = _plain(v)
                else:
                    val = m.eval(var, model_completion=True)
                    if z3.is_int_value(val):
                        out[k] = val.as_long()
                    elif z3.is_true(val) or z3.is_false(val):
                        out[k] = bool(z3.is_true(val))
                    elif z3.is_string_value(val):
                        out[k] = val.as_string()
                    else:
                        out[k] = str(val)
            out['_tag'] = tag if isinstance(tag, (str, type(None))) else str(tag)
            WITNESSES.append(out)
        except Exception:
            pass


def _plain(v):
    if isinstance(v, (bool, int, float, str, type(None))):
        return v
    if isinstance(v, (list, tuple)):
        return [_plain(x) for x in v]
    return repr(v)
