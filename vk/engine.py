"""Engine A driver: decide ONE shard of a harness with CrossHair (symbolic execution + z3).

Runs as a child process:  python -m vk.engine '<json spec>'
spec = {module, fn, pin, cond_timeout, path_timeout, twin}
Prints one line  RESULT <json>  on stdout.

A shard is a harness function (PEP-316 contract in its docstring) of a harness
module plus a dict PIN of values the harness reads as constants.  The verdict
classes are those of DESIGN.md 3.1:
  CONFIRMED  - path tree exhausted, post-condition true on every path
  REFUTED    - CrossHair produced a model falsifying the post-condition
               (a *candidate*: the runner replays it concretely before reporting)
  INCOMPLETE - every explored path fine, tree not exhausted within the budget
  VACUOUS    - no path met the pre-condition / all paths aborted
  ERROR      - engine trouble
"""
import sys, os, json, ast, re, collections, importlib, logging, traceback
from time import perf_counter as _pc

sys.setrecursionlimit(10000)
logging.disable(logging.CRITICAL)

import z3
import crosshair.core as _core
from crosshair.core_and_libs import analyze_function, run_checkables, MessageType
from crosshair.options import AnalysisOptionSet
from crosshair.tracers import NoTracing

# --- short-circuiting off (DESIGN 3.1): it only adds over-approximate paths -----------
_orig_sc = _core.consider_shortcircuit


def _no_shortcircuit(fn, sig, bound, subconditions, allow_interpretation):
    if allow_interpretation:
        return None
    return _orig_sc(fn, sig, bound, subconditions, allow_interpretation)


_core.consider_shortcircuit = _no_shortcircuit

# --- solver accounting (must not call anything CrossHair patches: body under NoTracing)
ACC = {'queries': 0, 'solver_s': 0.0, 'slow': 0}
_orig_check = z3.Solver.check


def _check(self, *a):
    with NoTracing():
        t = _pc()
        r = _orig_check(self, *a)
        ACC['queries'] += 1
        dt = _pc() - t
        ACC['solver_s'] += dt
        if dt > 5:
            ACC['slow'] += 1
        return r


z3.Solver.check = _check


def parse_call_args(message, fn):
    """'false when calling f(1, x=2) (which returns False)' -> dict of argument values"""
    m = re.search(r'when calling (\w+)\((.*?)\)(?: \(which|\s*$)', message, re.S)
    if not m:
        m = re.search(r'when calling (\w+)\((.*)\)', message, re.S)
    if not m:
        return None
    try:
        call = ast.parse(f'f({m.group(2)})', mode='eval').body
        import inspect
        names = list(inspect.signature(fn).parameters)
        out = {}
        for n, a in zip(names, call.args):
            out[n] = ast.literal_eval(a)
        for kw in call.keywords:
            out[kw.arg] = ast.literal_eval(kw.value)
        return out
    except Exception:
        return None


def main():
    spec = json.loads(sys.argv[1])
    t0 = _pc()
    res = {'shard': spec.get('name'), 'module': spec['module'], 'fn': spec['fn'], 'pin': spec.get('pin', {}),
           'twin': bool(spec.get('twin'))}
    try:
        from vk import wit
        mod = importlib.import_module(spec['module'])
        mod.PIN.clear()
        mod.PIN.update(spec.get('pin', {}))
        wit.TWIN = bool(spec.get('twin'))
        wit.KNOWN = set(spec.get('known_tags', []))
        wit.MAXW = int(spec.get('max_witnesses', 6))
        if hasattr(mod, 'warmup'):
            mod.warmup()                      # concrete run: networkx lazy exec, imports
        wit.WITNESSES.clear()
        wit.POINTS.clear()
        fn = getattr(mod, spec['fn'])
        stats = collections.Counter()
        opts = AnalysisOptionSet(per_condition_timeout=float(spec.get('cond_timeout', 60)),
                                 per_path_timeout=float(spec.get('path_timeout', 30)), report_all=True,
                                 max_uninteresting_iterations=sys.maxsize, stats=stats)
        ACC.update(queries=0, solver_s=0.0, slow=0)
        msgs = run_checkables(analyze_function(fn, opts))
        res['paths'] = int(stats.get('num_paths', 0))
        res['queries'] = ACC['queries']
        res['solver_s'] = round(ACC['solver_s'], 3)
        res['slow_queries'] = ACC['slow']
        res['witnesses'] = list(wit.WITNESSES)
        res['points'] = dict(wit.POINTS)
        res['messages'] = [(m.state.name, m.message[:600]) for m in msgs]
        states = [m.state for m in msgs]
        if any(s in (MessageType.POST_FAIL, MessageType.EXEC_ERR, MessageType.POST_ERR, MessageType.PRE_INVALID if hasattr(MessageType, 'PRE_INVALID') else MessageType.POST_FAIL) for s in states):
            bad = [m for m in msgs if m.state in (MessageType.POST_FAIL, MessageType.EXEC_ERR, MessageType.POST_ERR)][0]
            res['status'] = 'REFUTED'
            res['cex'] = parse_call_args(bad.message, fn)
            res['cex_message'] = bad.message[:600]
            res['cex_kind'] = bad.state.name
            if 'NotDeterministic' in bad.message and res['cex'] is None:
                # the same decisions led to a different execution: harness + code under test are not a function of the
                # inputs inside one interpreter (state kept between paths).  No model exists; the runner replays the path
                # witnesses repeatedly in one interpreter and otherwise counts the shard as inconclusive.
                res['status'] = 'INCOMPLETE'
                res['nondet'] = True
                res['detail'] = 'CrossHair: NotDeterministic (state survives between paths in one interpreter)'
        elif any(s == MessageType.PRE_UNSAT for s in states):
            res['status'] = 'VACUOUS'
        elif states and all(s == MessageType.CONFIRMED for s in states):
            res['status'] = 'CONFIRMED'
        elif any(s == MessageType.CANNOT_CONFIRM for s in states):
            res['status'] = 'INCOMPLETE'
        else:
            res['status'] = 'ERROR'
            res['error'] = 'no verdict message: ' + repr(res['messages'])
    except BaseException as ex:           # noqa
        res['status'] = 'ERROR'
        res['error'] = ''.join(traceback.format_exception(type(ex), ex, ex.__traceback__))[-3000:]
    res['wall_s'] = round(_pc() - t0, 2)
    print('RESULT ' + json.dumps(res, default=str), flush=True)


if __name__ == '__main__':
    main()
