"""Stub validation (E4): runs a scenario through the public Simulation API with the REAL pandas (child process, env
VK_REAL_PANDAS=1) and prints the outputs; the parent compares them cell by cell with the outputs under vk.fakepd."""
import sys, json
sys.setrecursionlimit(10000)

if __name__ == '__main__':
    sc = json.loads(sys.argv[1])
    from vk import simh
    sim = simh.run_public(sc, [int(x) for x in sys.argv[2].split(',')])
    print('OUT ' + json.dumps(simh.plain_outputs(sim)))
