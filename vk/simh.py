"""SIMH - the bounded whole-simulation harness (DESIGN 5.3).

Builds the real actors exactly as Simulation.__init__ does (real Config parsing of a skeleton JSON file), overwrites
the parsed numbers with (possibly symbolic) scenario values, installs monitors, and runs Simulation.start()'s loop
under the real SimPy kernel with a step cap.  Every oracle is an independent reference predicate that returns a
violation tag "<Cxx>/<kind>/..."; a harness asserts the tags of its own property.

A scenario is a plain dict (JSON-able when concrete) so that a counterexample can be replayed verbatim.
"""
import json, os, copy
import simpy
import networkx as nx
from vk import kit, wit
from vk.kit import S, C, B

fakepd = kit.use_fakepd()
import topsim.core.monitor as M
import topsim.core.simulation as SIM
import topsim.user.telescope as T
from topsim.core.simulation import Simulation
from topsim.core.cluster import Cluster
from topsim.core.task import Task, TaskStatus
from topsim.core.instrument import RunStatus
from topsim.core.delay import DelayModel
from topsim.core.planner import Planner, WorkflowPlan, WorkflowStatus
from topsim.core.scheduler import ScheduleStatus
from topsim.user.telescope import Telescope
from topsim.algorithms.scheduling import Scheduling
from topsim.algorithms.planning import Planning
from topsim.user.plan.batch_planning import BatchPlanning
from topsim.user.schedule.batch_allocation import BatchProcessing
from topsim.user.schedule.queue_allocation import QueueProcessing
from topsim.user.schedule.dynamic_plan import DynamicSchedulingFromPlan
from topsim.user.schedule.greedy import GreedySchedulingFromPlan

WORK = '/verif/.work/simh'
FUNCTIONS = [Simulation.start, Simulation.is_finished, Simulation._generate_final_task_data, Telescope.run, Telescope.begin_observation,
             Telescope.finish_observation, S.Scheduler.run, S.Scheduler.check_ingest_capacity, S.Scheduler.allocate_ingest,
             S.Scheduler.allocate_tasks, S.Scheduler._generate_current_schedule, S.Scheduler._process_current_schedule,
             S.Scheduler._update_current_plan, S.Scheduler._find_pred_allocations, Cluster.run, Cluster.check_ingest_capacity,
             Cluster.provision_ingest_resources, Cluster.allocate_task_to_cluster, Cluster.provision_batch_resources,
             Cluster.release_batch_resources, B.Buffer.run, B.Buffer.check_buffer_capacity, B.Buffer.ingest_data_stream,
             B.Buffer.move_hot_to_cold, B.Buffer.move_cold_to_hot, B.Buffer.mark_observation_finished, B.HotBuffer.remove,
             B.HotBuffer.next_observation_for_processing, M.Monitor.run, M.Monitor.collate_actor_dataframes, M.Monitor.collate_events,
             Task.do_work, BatchPlanning.generate_plan, BatchProcessing.run, BatchProcessing._provision_resources,
             BatchProcessing._max_resource_provision, QueueProcessing.run, DynamicSchedulingFromPlan.run, GreedySchedulingFromPlan.run]
STUBS = ['E1 scheduler.time -> 0.0', 'E2 tqdm -> None', 'E3 logging disabled', 'E4 pandas -> vk.fakepd (validated against real pandas each run)',
         'E5 workflow JSON -> nx.DiGraph built from scenario', 'E6 static planner stub (SHADOW not installed)',
         'E10 injected per-task delays', 'E12 integral start/duration']


# ------------------------------------------------------------------------------------------------ skeleton config
def skeleton(nobs, nmach, names=None):
    os.makedirs(WORK, exist_ok=True)
    p = os.path.join(WORK, f'cfg2_{nobs}_{nmach}' + ('_' + '-'.join(names) if names else '') + '.json')
    if not os.path.exists(p):
        obs = [dict(name=f'o{i + 1}', start=0, duration=1, instrument_demand=1, data_product_rate=1) for i in range(nobs)]
        cfg = {'instrument': {'telescope': {'total_arrays': 4, 'max_ingest_resources': 2,
                                            'pipelines': {o['name']: {'workflow': f"wf_{o['name']}.json", 'ingest_demand': 1} for o in obs},
                                            'observations': obs}},
               'cluster': {'header': {}, 'system': {'resources': {(names[i] if names else f'm{i}'): {'flops': [10, 30, 10, 20][i % 4], 'compute_bandwidth': [5, 9, 5, 7][i % 4]} for i in range(nmach)},
                                                    'system_bandwidth': 1}},
               'buffer': {'hot': {'capacity': 1000, 'max_ingest_rate': 100}, 'cold': {'capacity': 1000, 'max_data_rate': 100}},
               'timestep': 'seconds'}
        tmp = p + f'.{os.getpid()}'
        json.dump(cfg, open(tmp, 'w'))
        os.replace(tmp, p)
    return p


# ------------------------------------------------------------------------------------------------ monitors
class Mon:
    def __init__(self):
        self.active = {}        # machine id -> live do_work generators
        self.tags = []
        self.activations = {}   # task id -> number of do_work activations
        self.machine_of = {}
        self.alloc = []         # allocation log
        self.extras = {}        # task id -> delay added by the model
        self.begin = []         # admission snapshots
        self.entry = {}         # task id -> do_work entry instant
        self.exit = {}
        self.overcommitted = False
        self.res_seen = set()   # reservations already seen by the probe

    def tag(self, t):
        if t not in self.tags:
            self.tags.append(t)


CUR = None
STATE = {}

_orig_dw = Task.do_work


def _dw(self, env, machine, predecessor_allocations=None):
    mon = CUR
    if mon is None:
        yield from _orig_dw(self, env, machine, predecessor_allocations)
        return
    mon.activations[self.id] = mon.activations.get(self.id, 0) + 1
    mon.machine_of[self.id] = machine.id
    mon.entry[self.id] = env.now
    mon.active[machine.id] = mon.active.get(machine.id, 0) + 1
    if mon.active[machine.id] > 1:
        mon.tag('C01/two-tasks-on-one-machine')
    yield from _orig_dw(self, env, machine, predecessor_allocations)
    mon.active[machine.id] -= 1
    mon.exit[self.id] = env.now


Task.do_work = _dw

_orig_alloc = Cluster.allocate_task_to_cluster


def _alloc(self, task, machine, predecessor_allocations=None, observation=None, ingest=False, c='default'):
    mon = CUR
    if mon is not None:
        r = self._resources
        mon.alloc.append(dict(t=self.env.now, task=task, machine=machine, preds=list(predecessor_allocations or []), obs=observation,
                              ingest=ingest, in_own_idle=(machine in self.get_idle_resources(observation)),
                              in_avail=(machine in r['available']), in_ingest=(machine in r['ingest']), in_occupied=(machine in r['occupied']),
                              foreign=any(machine in v for k, v in r['idle'].items() if k != observation)))
        if STATE.get('batch') and not ingest and machine not in self.get_idle_resources(observation):
            mon.tag('C09/allocation-outside-own-reservation')
        if STATE.get('batch') and len(r['idle']) > STATE['parts']:
            mon.tag('C09/too-many-reservations')
    return _orig_alloc(self, task, machine, predecessor_allocations, observation, ingest, c)


Cluster.allocate_task_to_cluster = _alloc

_orig_begin = Telescope.begin_observation


def _begin(self, observation):
    mon = CUR
    if mon is not None and STATE.get('sim') is not None:
        sim = STATE['sim']
        cl = sim.cluster
        hot, cold = sim.buffer.hot[0], sim.buffer.cold[0]
        size = observation.ingest_data_rate * observation.duration
        dem = self.pipelines[observation.name]['ingest_demand']
        now = self.env.now
        if observation.est > now:
            mon.tag('C08/started-before-planned-start')
        if self.telescope_use + observation.demand > self.total_arrays:
            mon.tag('C08/not-enough-free-arrays')
        promised = sum(b['dem'] for b in mon.begin if b['t'] == now)            # admitted earlier in this same timestep
        promised_room = sum(b['size'] for b in mon.begin if b['t'] == now)
        # data still to come from observations that are being ingested (admitted earlier, not yet fully deposited)
        pending_in = sum(b['size'] - b['obs'].total_data_size for b in mon.begin if b['t'] < now and b['obs'].status is RunStatus.RUNNING)
        if dem > len(cl._resources['available']) - promised:
            mon.tag('C08/not-enough-available-machines')
        if len(cl._resources['ingest']) + promised + dem > self.max_ingest:
            mon.tag('C08/ingest-limit-exceeded-at-start')
        if size > hot.current_capacity - promised_room:
            mon.tag('C08/no-room-in-hot-buffer')
        elif size > hot.current_capacity - promised_room - pending_in:
            mon.overcommitted = True          # room exists now but is spoken for by data still being ingested (C07's matter)
        if size > cold.current_capacity:
            mon.tag('C08/no-room-in-cold-buffer')
        mon.begin.append(dict(t=now, obs=observation, dem=dem, size=size, est=observation.est))
    return _orig_begin(self, observation)


Telescope.begin_observation = _begin

_orig_calc = Task._calc_task_delay


def _calc(self):
    r = _orig_calc(self)
    if CUR is not None:
        CUR.extras[self.id] = r - self.duration
    return r


Task._calc_task_delay = _calc

DUR = {}          # graph node id -> injected integer duration (when scenario uses 'durs')
_orig_prun = Planner.run


def _prun(self, observation, buffer, max_ingest):
    plan = _orig_prun(self, observation, buffer, max_ingest)
    d = STATE.get('durs')
    if d is not None:
        k = STATE['obs_index'].get(observation.name, 0)
        for t in plan.tasks:
            t.duration = d[k][t.graph_id]         # flops == task_data == 0 -> do_work keeps self.duration
    return plan


Planner.run = _prun


# ------------------------------------------------------------------------------------------------ stubs
class SeqDelay(DelayModel):
    """E10: arbitrary per-task delay vector; generate_delay(r) = r + x_i"""

    def __init__(self, extras):
        super().__init__(0.0, 'normal', DelayModel.DelayDegree.LOW)
        self.extras = list(extras)
        self.i = 0

    def generate_delay(self, task_runtime, n=100):
        x = self.extras[self.i % len(self.extras)] if self.extras else 0
        self.i += 1
        return task_runtime + x

    def __copy__(self):
        return self            # the planner copies the model per task; keep one stream


class SeedDelay(DelayModel):
    """E10b: a delay model whose outcome is a function of its seed attribute alone (stands in for 'a seeded stream'):
    every task's copy of the planner's model must carry a seed that does not depend on the interpreter's hash salt"""

    def __init__(self, seed=20):
        super().__init__(1.0, 'normal', DelayModel.DelayDegree.LOW, seed=seed)

    def generate_delay(self, task_runtime, n=100):
        return task_runtime + (self.seed % 3)


class Adversary(Scheduling):
    """E9: proposes machine choices[k] (any machine: busy, duplicated, reserved) for every unscheduled task;
    honest about status; 'honest_prec' selects whether it respects precedence."""

    def __init__(self, choices, honest_prec=True):
        super().__init__()
        self.choices = list(choices)
        self.honest = honest_prec

    def __repr__(self):
        return "Adversary"

    def run(self, cluster, clock, workflow_plan, existing_schedule, task_pool):
        allocs = copy.copy(existing_schedule)
        for t in workflow_plan.tasks:
            if t.task_status is TaskStatus.UNSCHEDULED and t not in allocs:
                if self.honest and not all(cluster.is_task_finished(p) for p in workflow_plan.graph.predecessors(t)):
                    continue
                k = self.choices.pop(0) if self.choices else 0
                self.choices.append(k)
                if k < 0:
                    continue
                allocs[t] = wit.pick(cluster.machines, k)
        if len(workflow_plan.tasks) == 0:
            workflow_plan.status = WorkflowStatus.FINISHED
            cluster.release_batch_resources(workflow_plan.id)
        return allocs, workflow_plan.status, task_pool

    def to_df(self):
        pass


class DupFirst(Scheduling):
    """a user algorithm that proposes the FIRST currently free machine for every ready task of the workflow - the same
    machine several times in one call.  The Scheduler is built to defer all but one of them (its 'allocated in this
    timestep' guard), so a run under this algorithm completes; it never proposes a busy or foreign machine."""

    def __repr__(self):
        return "DupFirst"

    def run(self, cluster, clock, workflow_plan, existing_schedule, task_pool):
        allocs = copy.copy(existing_schedule)
        free = cluster.get_available_resources()
        for t in workflow_plan.tasks:
            if t.task_status is TaskStatus.UNSCHEDULED and t not in allocs and free:
                if all(cluster.is_task_finished(p) for p in workflow_plan.graph.predecessors(t)):
                    allocs[t] = free[0]
        if len(workflow_plan.tasks) == 0:
            workflow_plan.status = WorkflowStatus.FINISHED
            cluster.release_batch_resources(workflow_plan.id)
        return allocs, workflow_plan.status, task_pool

    def to_df(self):
        pass


class ReserveOnlyBatch(BatchProcessing):
    """a user algorithm that reserves machines through Cluster.provision_batch_resources (BatchProcessing's policy) but
    leaves the clean-up of the reservation to the Scheduler, as the Cluster documentation allows"""

    def __repr__(self):
        return "ReserveOnlyBatch"

    def run(self, cluster, clock, workflow_plan, existing_schedule, task_pool):
        real = cluster.release_batch_resources
        cluster.release_batch_resources = lambda *a, **k: None
        try:
            return super().run(cluster, clock, workflow_plan, existing_schedule, task_pool)
        finally:
            cluster.release_batch_resources = real


class StubStatic(Planning):
    """E6: a static plan with arbitrary machine assignment / est per task (stands in for the SHADOW planner)"""

    def __init__(self, graphs, assign, ests):
        super().__init__('stub', None)
        self.graphs, self.assign, self.ests = graphs, assign, ests

    def __str__(self):
        return 'StubStatic'

    def generate_plan(self, clock, cluster, buffer, observation, max_ingest):
        k = STATE['obs_index'].get(observation.name, 0)
        g = self.graphs[k]()
        mapping, tasks = {}, []
        for n in nx.topological_sort(g):
            tid = self._create_observation_task_id(n, observation, clock)
            preds = [self._create_observation_task_id(p, observation, clock) for p in g.predecessors(n)]
            io = {self._create_observation_task_id(p, observation, clock): g.edges[p, n]['transfer_data'] for p in g.predecessors(n)}
            dur = g.nodes[n].get('dur', 1)
            names = STATE.get('names')
            mid = names[self.assign[k][n]] if names else f"m{self.assign[k][n]}"
            t = Task(tid, self.ests[k][n], self.ests[k][n] + dur, mid, preds, 0, 0, io, copy.copy(self.delay_model), gid=n)
            mapping[n] = t
            tasks.append(t)
        tasks.sort(key=lambda x: x.est)
        return WorkflowPlan(observation.name, self._calc_workflow_est(observation, buffer), 10 ** 6, tasks, [t.id for t in tasks],
                            WorkflowStatus.SCHEDULED, max_ingest, nx.relabel_nodes(g, mapping))

    def to_df(self):
        pass


def graph_fn(g):
    """g = {'n': k, 'edges': [[i, j, vol], ...], 'comps': [...]} -> function building the nx.DiGraph"""
    def f():
        G = nx.DiGraph()
        lab = g.get('labels') or list(range(g['n']))      # 'labels': node names as a workflow file may carry them ('cal_1', 'img_1')
        for i in range(g['n']):
            G.add_node(lab[i], comp=(g.get('comps') or [0] * g['n'])[i], dur=(g.get('durs') or [1] * g['n'])[i])
        for (i, j, v) in g.get('edges', []):
            G.add_edge(lab[i], lab[j], transfer_data=v)
        return G
    return f


def make_alg(a):
    k = a['kind']
    if k == 'batch':
        return BatchProcessing(max_resource_partitions=a.get('parts', 1), min_resources_per_workflow=a.get('min', 1),
                               resource_split=a.get('split'))
    if k == 'reserve_only':
        return ReserveOnlyBatch(max_resource_partitions=a.get('parts', 1), min_resources_per_workflow=a.get('min', 1))
    if k == 'queue':
        return QueueProcessing()
    if k == 'dynamic':
        return DynamicSchedulingFromPlan()
    if k == 'greedy':
        return GreedySchedulingFromPlan()
    if k == 'dupfirst':
        return DupFirst()
    if k == 'adversary':
        return Adversary(a.get('choices', [0]), a.get('honest', True))
    raise ValueError(k)


# ------------------------------------------------------------------------------------------------ probe + oracles
def true_row(sim):
    cl, bf, tel, sch = sim.cluster, sim.buffer, sim.instrument, sim.scheduler
    r = cl._resources
    hot, cold = bf.hot[0], bf.cold[0]
    return dict(available_resources=len(cl.machines) - len(r['ingest']) - len(r['occupied']), ingest_resources=len(r['ingest']),
                running_tasks=len(cl._tasks['running']), finished_tasks=sum(1 for v in cl._tasks['finished'].values() if v),
                provisioned_observations=len(r['idle']), hot_buffer=hot.current_capacity, cold_buffer=cold.current_capacity,
                stored=len(hot.observations['stored']) + len(cold.observations['stored']),
                observations_waiting=sum(1 for o in tel.observations if o.status == RunStatus.WAITING),
                observations_finished=sum(1 for o in tel.observations if o.status == RunStatus.FINISHED),
                scheduler_observation_queue=len(sch.observation_queue))


def probe(sim, mon, snaps):
    env = sim.env
    while True:
        cl, bf, tel, sch = sim.cluster, sim.buffer, sim.instrument, sim.scheduler
        r = cl._resources
        t = kit.cluster_invariant(cl, True)
        if t:
            mon.tag(t)
        hot, cold = bf.hot[0], bf.cold[0]
        if hot.current_capacity < 0 or hot.current_capacity > hot.total_capacity:
            mon.tag('C07/hot-buffer-out-of-range')
        if cold.current_capacity < 0 or cold.current_capacity > cold.total_capacity:
            mon.tag('C07/cold-buffer-out-of-range')
        resident = sum(o.total_data_size for o in tel.observations if o.total_data_size and o not in hot.observations['finished'])
        used = (hot.total_capacity - hot.current_capacity) + (cold.total_capacity - cold.current_capacity)
        if used != resident:
            mon.tag('C07/used-space-differs-from-resident-data')
        for o in tel.observations:
            if o.status == RunStatus.FINISHED and o.total_data_size != o.ingest_data_rate * o.duration and o not in hot.observations['finished']:
                mon.tag('C07/observation-finished-without-depositing-rate-times-duration')
        if tel.telescope_use > tel.total_arrays:
            mon.tag('C08/arrays-in-use-exceed-total')
        # independent of the telescope's own counter: observations that have begun and not finished hold their arrays
        begun = {b['obs'].name for b in mon.begin}
        if sum(o.demand for o in tel.observations if o.name in begun and o.status != RunStatus.FINISHED) > tel.total_arrays:
            mon.tag('C08/observations-on-the-telescope-hold-more-arrays-than-exist')
        # independent of the observations' status as well: an observation that began at b holds its arrays during [b, b + duration)
        if sum(b['obs'].demand for b in mon.begin if env.now < b['t'] + b['obs'].duration) > tel.total_arrays:
            mon.tag('C08/observations-within-their-duration-hold-more-arrays-than-exist')
        # ... and no longer once that window has elapsed (one step of grace: the finish is processed during step begin + duration):
        # arrays counted in use beyond it keep a due observation waiting although the telescope is free
        if tel.telescope_use > sum(b['obs'].demand for b in mon.begin if -(-(b['t'] + b['obs'].duration) // 1) >= env.now):
            mon.tag('C08/arrays-still-held-after-the-observation-window-elapsed')
        if len(r['ingest']) > tel.max_ingest:
            mon.tag('C08/ingest-machines-exceed-limit')
        truly_idle = len(cl._tasks['running']) == 0 and len(r['occupied']) == 0 and len(r['ingest']) == 0
        if cl.is_idle() != truly_idle:
            mon.tag('C19/cluster-is-idle-wrong')
        b_empty = hot.current_capacity == hot.total_capacity and cold.current_capacity == cold.total_capacity
        if bf.is_empty() != b_empty:
            mon.tag('C19/buffer-is-empty-wrong')
        if sch.is_idle() != (len(sch.observation_queue) == 0):
            mon.tag('C19/scheduler-is-idle-wrong')
        t_idle = all(o.status == RunStatus.FINISHED for o in tel.observations) and tel.telescope_use == 0
        if tel.is_idle() != t_idle:
            mon.tag('C19/telescope-is-idle-wrong')
        if sim.is_finished() != (truly_idle and b_empty and t_idle and len(sch.observation_queue) == 0):
            mon.tag('C19/simulation-is-finished-wrong')
        # C09: a reservation (idle reserved machines + machines running tasks of its owner) stays within its configured size
        if STATE.get('batch'):
            busy_for = {}
            running = cl._tasks['running']
            for a in mon.alloc:
                if not a['ingest'] and a['obs'] is not None and a['task'] in running:
                    busy_for[a['obs']] = busy_for.get(a['obs'], 0) + 1
            for name, idle in r['idle'].items():
                split = STATE.get('split')
                hi = split[name][1] if split and name in split else len(cl.machines) // max(STATE.get('parts', 1), 1)
                if len(idle) + busy_for.get(name, 0) > hi:
                    mon.tag('C09/reservation-above-configured-size')
                if name not in mon.res_seen:
                    # first sight of a reservation (made during the previous step): never below the minimum
                    mon.res_seen.add(name)
                    lo = split[name][0] if split and name in split else STATE.get('min_res', 1)
                    if len(idle) + busy_for.get(name, 0) < lo:
                        mon.tag('C09/reservation-below-configured-minimum')
            for name in list(mon.res_seen):
                if name not in r['idle']:
                    mon.res_seen.discard(name)
        # C15: once a task that was given a delay has completed (and the scheduler has had two steps to see it) the
        # schedule is reported as delayed, at every later instant
        if sch.schedule_status is not ScheduleStatus.DELAYED:
            for tid, x in mon.extras.items():
                if x > 0 and tid in mon.exit and mon.exit[tid] + 3 <= env.now:
                    mon.tag('C15/delayed-schedule-not-reported-after-delayed-task-completed')
        row = true_row(sim)
        row['t'] = env.now
        row['statuses'] = [o.status.value for o in tel.observations]
        # C12, independent of the buffers' own counters: data streamed in and not yet removed (both tiers together)
        row['resident'] = resident
        # C12, independent of the status flags: observations whose [begin, begin + duration) has elapsed by the previous step
        # must be counted as finished in this row; none whose window is still open may be
        row['elapsed'] = (sum(1 for b in mon.begin if -(-(b['t'] + b['obs'].duration) // 1) <= env.now - 1),
                          sum(1 for b in mon.begin if b['t'] + b['obs'].duration <= env.now))
        snaps.append(row)
        yield env.timeout(1)


def serial_bound(sc):
    """C05: latest start + sum of durations, tier transfers, task runtimes on the slowest machine, transfer waits, c=3 per item"""
    c = 3
    obs = sc['obs']
    b = 0
    for o in obs:
        if o['start'] > b:
            b = o['start']
    minrate = sc['hot_rate'] if sc['hot_rate'] <= sc['cold_rate'] else sc['cold_rate']
    slow_cpu = min(sc['machines'])
    bw = sc.get('bw', 5)
    for k, o in enumerate(obs):
        size = o['rate'] * o['dur']
        b += o['dur'] + c
        b += 2 * ((size + minrate - 1) // minrate) + 2 * c
        g = sc['graphs'][k if len(sc['graphs']) > 1 else 0]
        for i in range(g['n']):
            if g.get('durs') is not None:
                d = g['durs'][i]
            else:
                d = g['comps'][i] // slow_cpu
            b += (d if d >= 1 else 1) + c
        for (i, j, v) in g.get('edges', []):
            b += (v + bw - 1) // bw + c
    for x in sc.get('delays', []):
        b += x
    nt = sum(sc['graphs'][k if len(sc['graphs']) > 1 else 0]['n'] for k in range(len(obs)))
    b += max([0] + list(sc.get('delays', []))) * nt
    return b


def blocked_signature(sim):
    tel, bf, sch, cl = sim.instrument, sim.buffer, sim.scheduler, sim.cluster
    hot, cold = bf.hot[0], bf.cold[0]
    if cold.observations['stored']:
        # why does it not come back?  (the two by-design reasons are listed as known findings; anything else is new)
        o = cold.observations['stored'][-1]
        gate_open = (hot.current_capacity + bf._data_left_to_transfer) * 5 < hot.total_capacity * 3
        fits = (hot.total_capacity - hot.current_capacity + o.total_data_size) * 5 < hot.total_capacity * 3
        if not gate_open:
            return 'obs-stranded-in-cold/return-gate-closed-while-hot-buffer-mostly-free'
        if not fits:
            return 'obs-stranded-in-cold/does-not-fit-under-tiering-threshold'
        return 'obs-stranded-in-cold/other'
    if any(o.status == RunStatus.WAITING for o in tel.observations):
        return 'observation-never-admitted'
    if sch.observation_queue:
        return 'workflow-stuck-in-queue'
    if hot.observations['stored']:
        return 'stored-in-hot-not-picked-up'
    if not cl.is_idle():
        return 'cluster-never-idle'
    return 'other'


def feasible(sc):
    """C05's pre-condition: each observation alone fits the telescope, the ingest limit, the cluster and both buffers;
    Batch: floor(machines / partitions) >= minimum reservation"""
    nm = len(sc['machines'])
    for o in sc['obs']:
        size = o['rate'] * o['dur']
        if o.get('arrays', 1) > sc.get('arrays', 4) or o.get('ingest', 1) > sc['max_ingest'] or o.get('ingest', 1) > nm:
            return False
        if size >= sc['hot'] or size > sc['cold'] or o['rate'] > sc['hot_rate'] or o['dur'] < 1:
            return False
    a = sc['alg']
    if a['kind'] in ('batch', 'reserve_only') and nm // a.get('parts', 1) < a.get('min', 1):
        return False
    return True


class Result:
    def __init__(self, tags, mon, sim, snaps, df=None, tasks=None):
        self.tags, self.mon, self.sim, self.snaps, self.df, self.tasks = tags, mon, sim, snaps, df, tasks


def build(sc):
    """real Simulation object for the scenario (numbers overwritten after real Config parsing; the skeleton's machines have
    unequal speeds and bandwidths in no particular order, so anything decided from them at construction time shows)"""
    global CUR
    nobs, nmach = len(sc['obs']), len(sc['machines'])
    cfgpath = skeleton(nobs, nmach, sc.get('names'))
    env = simpy.Environment()
    alg = make_alg(sc['alg'])
    graphs = [graph_fn(g) for g in sc['graphs']]
    if len(graphs) == 1:
        graphs = graphs * nobs
    delay = SeedDelay(sc['seed_delay']) if sc.get('seed_delay') is not None else (SeqDelay(sc['delays']) if sc.get('delays') else None)
    STATE.clear()
    STATE.update(batch=(sc['alg']['kind'] in ('batch', 'reserve_only')), parts=sc['alg'].get('parts', 1), sim=None,
                 obs_index={f'o{i + 1}': i for i in range(nobs)}, names=sc.get('names'),
                 shipped_alg=(sc['alg']['kind'] in ('batch', 'queue', 'dynamic', 'greedy')), abort_counts=(sc['alg']['kind'] == 'dupfirst'), split=sc['alg'].get('split'), min_res=sc['alg'].get('min', 1))
    gl = sc['graphs'] if len(sc['graphs']) > 1 else sc['graphs'] * nobs
    if sc['alg']['kind'] in ('dynamic', 'greedy') or sc.get('static'):
        model = StubStatic(graphs, sc['assign'], sc['ests'])
    elif sc.get('real_wf'):
        # the real BatchPlanning._workflow_to_nx parses real workflow files (node-link JSON) written next to the configuration;
        # sc['_model'] lets a second Simulation be given the planning object of an earlier one (as a sweep script would)
        model = sc.get('_model') or BatchPlanning('batch')
        d = os.path.join(WORK, f'rw_{os.getpid()}')          # per process: shards run side by side and write different graphs
        os.makedirs(d, exist_ok=True)
        own = os.path.join(d, os.path.basename(cfgpath))
        if not os.path.exists(own):
            json.dump(json.load(open(cfgpath)), open(own, 'w'))
        cfgpath = own
        for i in range(nobs):
            wf = os.path.join(os.path.dirname(cfgpath), f'wf_o{i + 1}.json')
            tmp = wf + f'.{os.getpid()}'
            json.dump({'graph': nx.readwrite.node_link_data(graphs[i](), edges='edges')}, open(tmp, 'w'))
            os.replace(tmp, wf)
        if all(g.get('durs') is not None for g in gl):
            STATE['durs'] = [g['durs'] for g in gl]
    else:
        model = BatchPlanning('batch')
        model._workflow_to_nx = lambda wf: graphs[int(os.path.basename(wf)[4:-5]) - 1]()
        if all(g.get('durs') is not None for g in gl):
            STATE['durs'] = [g['durs'] for g in gl]
    sim = Simulation(env, cfgpath, Telescope, model, 'batch', alg, delay=delay, timestamp=0)
    if isinstance(model, StubStatic):
        model.delay_model = sim.planner.delay_model if delay else None
    elif delay:
        model.delay_model = delay
    tel = sim.instrument
    for o, so in zip(tel.observations, sc['obs']):
        o.est, o.duration, o.demand, o.ingest_data_rate = so['start'], so['dur'], so.get('arrays', 1), so['rate']
        tel.pipelines[o.name]['ingest_demand'] = so.get('ingest', 1)
    tel.max_ingest = sc['max_ingest']
    tel.total_arrays = sc.get('arrays', 4)
    for m, cpu in zip(sim.cluster.machines, sc['machines']):
        m.cpu = cpu
        m.bandwidth = sc.get('bw', 5)
    hot, cold = sim.buffer.hot[0], sim.buffer.cold[0]
    hot.total_capacity = hot.current_capacity = sc['hot']
    cold.total_capacity = cold.current_capacity = sc['cold']
    hot.max_ingest_data_rate, cold.max_data_rate = sc['hot_rate'], sc['cold_rate']
    STATE['sim'] = sim
    return sim


def start_with_cap(sim, mon, cap):
    """Simulation.start()'s own loop with a step cap (the C05 bound).  Returns 'finished' | 'cap' | 'raised'."""
    env = sim.env
    sim.running = True
    env.process(sim.monitor.run())
    env.process(sim.instrument.run())
    env.process(sim.cluster.run())
    sim.scheduler.start()
    env.process(sim.scheduler.run())
    env.process(sim.buffer.run())
    try:
        while not sim.is_finished():
            if env.now >= cap:
                mon.tag('C05/not-finished-within-serial-bound/' + blocked_signature(sim))
                return 'cap'
            env.run(env.now + 1)
    except Exception as ex:           # CrossHair's control-flow exceptions are BaseException: not caught here
        site = ''
        e = ex
        while e is not None and not site:         # SimPy re-raises a process failure with the original as __cause__
            tb = e.__traceback__
            while tb is not None:
                fn = tb.tb_frame.f_code.co_filename
                if '/topsim/' in fn:
                    site = os.path.basename(fn)[:-3] + '.' + tb.tb_frame.f_code.co_name
                tb = tb.tb_next
            e = e.__cause__ or e.__context__
        mon.tag(f'C05/raises/{type(ex).__name__}@{site}')
        if STATE.get('abort_counts'):
            # duplicated proposals of a free machine are deferred by the Scheduler, never an error: the run must complete
            mon.tag(f'C04/run-aborted-by-exception/under-duplicate-proposals-of-a-free-machine/{type(ex).__name__}@{site}')
        if STATE.get('shipped_alg'):
            # a run aborted by an exception has not executed everything once and does not return at all; under a user
            # algorithm an error may be the legitimate rejection of an illegal proposal (C01), so only shipped ones count
            mon.tag(f'C04/run-aborted-by-exception/{type(ex).__name__}@{site}')
        return 'raised'
    return 'finished'


def run(sc, cap=None, monitor_only=False):
    global CUR
    mon = Mon()
    CUR = mon
    try:
        sim = build(sc)
        snaps = []
        sim.env.process(probe(sim, mon, snaps))
        outcome = start_with_cap(sim, mon, cap if cap is not None else sc.get('cap') or serial_bound(sc))
        res = Result(mon.tags, mon, sim, snaps)
        res.outcome = outcome
        if outcome == 'cap':
            partial_event_oracles(sim, mon)
        if outcome != 'finished':
            return res
        sim.monitor.collate_events()
        res.df = sim.monitor.df
        res.tasks = sim._generate_final_task_data()
        final_oracles(sc, res)
        return res
    finally:
        CUR = None


def partial_event_oracles(sim, mon):
    """C13 on a run that hit the step cap: what has been logged must still be right - in particular an observation
    whose 'started' is logged must have its 'finished' logged exactly one duration later once that time has passed"""
    try:
        sim.monitor.collate_events()
        ev = sim.monitor.events.rows
    except Exception:
        return
    now = sim.env.now
    for o in sim.instrument.observations:
        mine = [(e['actor'], e['resource'], e['event'], e['time']) for e in ev if e['observation'] == o.name]
        st = [m[3] for m in mine if m[:3] == ('instrument', 'telescope', 'started')]
        fi = [m[3] for m in mine if m[:3] == ('instrument', 'telescope', 'finished')]
        if len(st) > 1:
            mon.tag('C13/instrument-telescope-started-logged-2-times')
        if len(st) == 1 and now > st[0] + o.duration + 1:
            if not fi:
                mon.tag('C13/finished-not-logged-one-duration-after-started')
            elif fi[0] - st[0] != o.duration:
                mon.tag('C13/finished-not-duration-after-started')


def final_oracles(sc, res):
    sim, mon, snaps, df, tasks = res.sim, res.mon, res.snaps, res.df, res.tasks
    cl, bf, tel, sch = sim.cluster, sim.buffer, sim.instrument, sim.scheduler
    hot, cold = bf.hot[0], bf.cold[0]
    # ---- C04 / C02 quiescence + exactly once
    r = cl._resources
    if cl._tasks['running'] or r['ingest'] or r['occupied']:
        mon.tag('C04/returned-with-task-running')
    if sch.observation_queue:
        mon.tag('C04/returned-with-observation-queued')
    if r['idle'] or cl.num_provisioned_obs != 0:
        mon.tag('C04/returned-with-reservation-held')
    if len(r['available']) != len(cl.machines):
        mon.tag('C04/not-all-machines-available')
    if hot.current_capacity != hot.total_capacity or cold.current_capacity != cold.total_capacity:
        mon.tag('C04/buffers-not-at-full-free-capacity')
    expected_ingest = []
    for o in tel.observations:
        if o.status != RunStatus.FINISHED:
            mon.tag('C04/observation-not-finished')
        expected_ingest += [f'{o.name}_ingest_t{i}' for i in range(tel.pipelines[o.name]['ingest_demand'])]
    nbegin = {}
    for b in mon.begin:
        nbegin[b['obs'].name] = nbegin.get(b['obs'].name, 0) + 1
    for o in tel.observations:
        if nbegin.get(o.name, 0) != 1:
            mon.tag('C04/observation-not-observed-exactly-once')
    for tid, n in mon.activations.items():
        if n != 1:
            mon.tag('C04/task-executed-more-than-once')
    for e in expected_ingest:
        if mon.activations.get(e) != 1:
            mon.tag('C04/ingest-task-not-executed-once')
    if sorted(t for t in mon.activations if '_ingest_t' in t) != sorted(expected_ingest):
        mon.tag('C04/ingest-tasks-differ-from-the-pipeline-demand')
    gl = sc['graphs'] if len(sc['graphs']) > 1 else sc['graphs'] * len(sc['obs'])
    for k, o in enumerate(tel.observations):
        mine = [tid for tid in mon.activations if tid.startswith(o.name + '_') and '_ingest_t' not in tid]
        if len(mine) != gl[k]['n']:
            mon.tag('C04/workflow-task-count-differs')
    if len(tasks.rows) != 0 and len(tasks.rows) != len(mon.activations):
        mon.tag('C04/task-table-rows-differ-from-executed-tasks')
    if tasks.index is not None and sorted(tasks.index) != sorted(mon.activations):
        mon.tag('C04/task-table-ids-differ')
    # ---- C03 precedence + exact start, C06 runtime, C15 flag, C17 planned machine
    byid = {t.id: t for t in cl._tasks['finished']}

    def graph_preds(t):
        """predecessor task ids and edge volumes of task t read from the SCENARIO graph (not from the plan under test)"""
        oname = t.id.split('_')[0]
        g = gl[STATE['obs_index'].get(oname, 0)]
        stem = t.id[:len(t.id) - len(str(t.graph_id))]
        return {stem + str(i): v for (i, j, v) in g.get('edges', []) if j == t.graph_id}

    for t in byid.values():
        if '_ingest_t' in t.id:
            continue
        for p in graph_preds(t):
            if p not in byid:
                mon.tag('C03/predecessor-never-ran')
            elif t.ast < byid[p].aft:
                mon.tag('C03/started-before-predecessor-finished')
    # C06: an ingest task runs for exactly its observation's duration, also when the observation began late
    for t in byid.values():
        if '_ingest_t' in t.id and t.aft >= 0:
            for o in sim.instrument.observations:
                if t.id.startswith(o.name + '_ingest_t') and o.duration == int(o.duration) and t.aft - t.ast != max(1, o.duration):
                    mon.tag('C06/ingest-task-runtime-differs-from-observation-duration')
    for a in mon.alloc:
        t = a['task']
        if a['ingest'] or t.aft < 0:
            continue
        m = a['machine']
        gp = graph_preds(t)
        same = [p for p in gp if p in byid and mon.machine_of.get(p) == m.id]
        cross = [p for p in gp if p in byid and mon.machine_of.get(p) != m.id]
        if sorted(x.id for x in a['preds']) != sorted(cross):
            mon.tag('C03/transfer-wait-for-wrong-predecessors')
        want = a['t']
        for p in cross:
            arr = byid[p].aft + gp[p] / m.bandwidth
            if arr > want:
                want = arr
        if abs(t.ast - want) > 1e-9:          # fractional transfer times: now + (arrival - now) may differ from arrival by an ulp
            mon.tag('C03/start-not-max-of-allocation-and-arrivals')
        extra = mon.extras.get(t.id, 0)
        if t.flops > 0 or t.task_data > 0:
            nominal = max(t.flops // m.cpu, t.task_data // m.bandwidth)
        else:
            nominal = t.duration
        runt = t.aft - t.ast
        if runt < max(1, nominal + extra) - 1e-9 or runt > max(1, nominal) + extra + 1e-9:
            mon.tag('C06/recorded-runtime-differs')
        if extra > 0 and not t.delay_flag:
            mon.tag('C15/delay-added-but-task-not-flagged')
        if sc['alg']['kind'] == 'dynamic':
            k = STATE['obs_index'].get(a['obs'], 0)
            want = sc['names'][sc['assign'][k][t.graph_id]] if sc.get('names') else f"m{sc['assign'][k][t.graph_id]}"
            if m.id != want:
                mon.tag('C17/task-ran-off-its-planned-machine')
    if any(v > 0 for v in mon.extras.values()) and sch.schedule_status is not ScheduleStatus.DELAYED:
        mon.tag('C15/schedule-not-reported-delayed')
    # ---- C08 ingest holds demand for duration
    for o in tel.observations:
        dem = tel.pipelines[o.name]['ingest_demand']
        ing = [byid[f'{o.name}_ingest_t{i}'] for i in range(dem) if f'{o.name}_ingest_t{i}' in byid]
        for t in ing:
            if t.ast != o.ast or t.aft - t.ast != o.duration:
                mon.tag('C08/ingest-not-held-for-observation-duration')
        if len([tid for tid in mon.activations if tid.startswith(o.name + '_ingest_t')]) != dem:
            mon.tag('C08/ingest-did-not-hold-exactly-the-pipeline-demand')
        if o.ast is not None and o.ast < o.est:
            mon.tag('C08/started-before-planned-start')
    # ---- C02: end state
    if len(r['available']) != len(cl.machines) or r['ingest'] or r['occupied']:
        mon.tag('C02/machines-not-all-available-at-end')
    if r['idle'] or cl.num_provisioned_obs != 0:
        mon.tag('C02/reservation-outstanding-at-end')
    # ---- C08: every observation goes WAITING -> RUNNING -> FINISHED once; on time when the system is completely idle
    order = {'WAITING': 0, 'RUNNING': 1, 'FINISHED': 2}
    for k, o in enumerate(tel.observations):
        seq = [order[sn['statuses'][k]] for sn in snaps]
        if any(b < a for a, b in zip(seq, seq[1:])):
            mon.tag('C08/observation-status-went-backwards')
        if o.ast is not None and o.est == int(o.est) and 0 <= int(o.est) < len(snaps):
            sn = snaps[int(o.est)]
            idle_then = (sn['available_resources'] == len(cl.machines) and sn['ingest_resources'] == 0 and sn['running_tasks'] == 0
                         and sn['hot_buffer'] == hot.total_capacity and sn['cold_buffer'] == cold.total_capacity
                         and sn['scheduler_observation_queue'] == 0 and sn['provisioned_observations'] == 0
                         and all(x != 'RUNNING' for x in sn['statuses']))
            first_due = all(not (o2 is not o and o2.est <= o.est and sn['statuses'][j] == 'WAITING') or j > k for j, o2 in enumerate(tel.observations))
            if idle_then and first_due and o.ast != o.est:
                mon.tag('C08/idle-system-did-not-start-due-observation-on-time')
    # ---- C12 table vs probe
    if len(df.rows) != len(snaps):
        mon.tag('C12/row-count-differs-from-timesteps')
    for row, snap in zip(df.rows, snaps):
        for k, v in snap.items():
            if k in ('t', 'statuses', 'resident', 'elapsed'):
                continue
            if row.get(k) != v:
                mon.tag(f'C12/{k}')
        if row.get('hot_buffer') is not None and row['hot_buffer'] + row['cold_buffer'] != hot.total_capacity + cold.total_capacity - snap['resident']:
            mon.tag('C12/buffer-columns-differ-from-resident-data')
        if row.get('observations_finished') is not None and not (snap['elapsed'][0] <= row['observations_finished'] <= snap['elapsed'][1]):
            mon.tag('C12/observations_finished-differs-from-elapsed-observations')
    # ---- C13 events
    ev = sim.monitor.events.rows
    KEYS = [('instrument', 'telescope', 'started'), ('instrument', 'telescope', 'finished'), ('buffer', 'buffer', 'added'),
            ('buffer', 'buffer', 'removed'), ('scheduler', 'queue', 'added'), ('scheduler', 'queue', 'removed'),
            ('scheduler', 'allocation', 'started'), ('scheduler', 'allocation', 'stopped')]
    for o in tel.observations:
        mine = [(e['actor'], e['resource'], e['event'], e['time']) for e in ev if e['observation'] == o.name]
        tm = {}
        for key in KEYS:
            hits = [m for m in mine if m[:3] == key]
            if len(hits) != 1:
                mon.tag(f'C13/{key[0]}-{key[1]}-{key[2]}-logged-{min(len(hits), 2)}-times')
            else:
                tm[key] = hits[0][3]
        if len(tm) == 8:
            st, fi, ba, br, qa, qr, as_, ap = [tm[k] for k in KEYS]
            if st != o.ast:
                mon.tag('C13/started-stamp-wrong')
            if fi - st != o.duration:
                mon.tag('C13/finished-not-duration-after-started')
            if ba != st:
                mon.tag('C13/buffer-added-not-at-start')
            if not (st <= qa <= as_ <= ap <= qr):
                mon.tag('C13/causal-order')
            if br != ap:
                mon.tag('C13/buffer-removed-not-at-allocation-stopped')
    return mon.tags


def tags_of(res, prefix):
    return [t for t in res.tags if t.startswith(prefix)]


def first_tag(res, prefixes):
    for t in res.tags:
        for p in prefixes:
            if t.startswith(p):
                return t
    return None


# ------------------------------------------------------------------------------------------------ public-API runs (C10, C11)
def outputs(sim):
    """what a user gets back: per-timestep table (minus wall-clock algtime columns), task table, event log"""
    ev = sorted((e['time'], e['actor'], e['observation'], e['event'], e['resource']) for e in sim.monitor.events.rows)
    df = [tuple(sorted((k, v) for k, v in r.items() if not str(k).endswith('algtime'))) for r in sim.monitor.df.rows]
    tk = sim._generate_final_task_data()
    tasks = sorted((str(c),) + tuple(sorted((str(i), r.get(c)) for i, r in zip(tk.index or [], tk.rows))) for c in tk.cols
                   if c not in ('scheduling', 'planning', 'config')) if tk.index else []
    cl, bf, tel, sch = sim.cluster, sim.buffer, sim.instrument, sim.scheduler
    state = (sim.env.now, kit.snapshot(cl), dict(cl._usage_data), cl.num_provisioned_obs, sorted(t.id for t in cl._tasks['running']),
             bf.hot[0].current_capacity, bf.cold[0].current_capacity, [o.name for o in bf.hot[0].observations['stored']],
             [o.name for o in bf.cold[0].observations['stored']], [o.status.value for o in tel.observations], tel.telescope_use,
             [o.name for o in sch.observation_queue], sch.provision_ingest, sch.schedule_status.value, sch.delay_offset)
    ev_rows = [(e['time'], e['actor'], e['observation'], e['event'], e['resource']) for e in sim.monitor.events.rows]     # in log order
    return dict(events=ev, table=df, tasks=tasks, state=state, event_rows=ev_rows)


def plain_outputs(sim):
    """outputs in a representation that does not depend on which table implementation (pandas / stub) produced them"""
    def rows_of(df):
        if hasattr(df, 'rows'):
            return [dict(r) for r in df.rows], list(df.cols)
        return df.to_dict('records'), list(df.columns)
    trows, tcols = rows_of(sim.monitor.df)
    table = [sorted((str(k), None if v != v else v) for k, v in r.items() if not str(k).endswith('algtime')) for r in trows]
    erows, _ = rows_of(sim.monitor.events)
    events = [[e['time'], e['actor'], e['observation'], e['event'], e['resource']] for e in erows]
    tk = sim._generate_final_task_data()
    if hasattr(tk, 'rows'):
        tasks = sorted([str(c)] + sorted((str(i), r.get(c)) for i, r in zip(tk.index or [], tk.rows)) for c in tk.cols if c not in ('scheduling', 'planning', 'config'))
    else:
        tasks = sorted([str(c)] + sorted((str(i), tk.loc[i, c]) for i in tk.index) for c in tk.columns if c not in ('scheduling', 'planning', 'config'))
    return json.loads(json.dumps(dict(table=table, events=events, tasks=tasks), default=lambda o: o.item() if hasattr(o, 'item') else str(o)))


def run_public(sc, segments):
    """Simulation.start(runtime=segments[0]) followed by resume(until=s) for the remaining segment ends"""
    global CUR
    CUR = None
    sim = build(sc)
    sim.start(runtime=segments[0])
    for u in segments[1:]:
        sim.resume(until=u)
    return sim


def run_horizon(sc, segments):
    """the public API driven for a FIXED horizon (start(runtime=a), resume(until=b) ...) with the probe ahead of the
    monitor; the horizon may lie beyond the step at which everything is finished.  C12 oracles only (one row per
    simulated timestep, each row equal to the probed state); event log: no transition twice (C13)."""
    global CUR
    mon = Mon()
    CUR = mon
    try:
        sim = build(sc)
        snaps = []
        sim.env.process(probe(sim, mon, snaps))
        try:
            sim.start(runtime=segments[0])
            for u in segments[1:]:
                sim.resume(until=u)
        except Exception as ex:
            mon.tag(f'C05/raises/{type(ex).__name__}@fixed-horizon-run')
            if STATE.get('shipped_alg'):
                mon.tag(f'C04/run-aborted-by-exception/{type(ex).__name__}@fixed-horizon-run')
        res = Result(mon.tags, mon, sim, snaps, sim.monitor.df)
        res.outcome = 'finished' if sim.is_finished() else 'horizon'
        rows = sim.monitor.df.rows
        if len(rows) != segments[-1] or len(snaps) < len(rows):
            mon.tag('C12/row-count-differs-from-timesteps')
        for row, snap in zip(rows, snaps):
            for k, v in snap.items():
                if k not in ('t', 'statuses', 'resident', 'elapsed') and row.get(k) != v:
                    mon.tag(f'C12/{k}')
            hb, cb = sim.buffer.hot[0], sim.buffer.cold[0]
            if row.get('hot_buffer') is not None and row['hot_buffer'] + row['cold_buffer'] != hb.total_capacity + cb.total_capacity - snap['resident']:
                mon.tag('C12/buffer-columns-differ-from-resident-data')
            if row.get('observations_finished') is not None and not (snap['elapsed'][0] <= row['observations_finished'] <= snap['elapsed'][1]):
                mon.tag('C12/observations_finished-differs-from-elapsed-observations')
        seen = set()
        for e in sim.monitor.events.rows:
            key = (e['time'], e['actor'], e['observation'], e['event'], e['resource'])
            if key in seen:
                mon.tag('C13/transition-logged-twice')
            seen.add(key)
        return res
    finally:
        CUR = None


# ------------------------------------------------------------------------------------------------ raw-scenario replay
PIN = {}


def scenario_tag(sc, props):
    """replay entry for a stored scenario (known-finding witnesses, seeded-change demonstrations)"""
    if not feasible(sc):
        return 'HARNESS/infeasible-scenario'
    return first_tag(run(sc), props)


def validate_fakepd(spec=None):
    """py-job: the pandas stub against real pandas on concrete simulations, all cells of the step table, the task table
    and the event log (translation validation of E4; no solver involved)"""
    import subprocess, sys
    scs = []
    for alg, segs in ((dict(kind='batch', parts=1, min=1), '20'), (dict(kind='queue'), '3,9,20')):
        scs.append((dict(machines=[10, 10, 20], bw=5, max_ingest=2, arrays=4, hot=1000, cold=1000, hot_rate=100, cold_rate=100,
                         obs=[dict(start=0, dur=2, arrays=1, ingest=1, rate=5), dict(start=1, dur=2, arrays=1, ingest=2, rate=7)],
                         graphs=[dict(n=3, edges=[[0, 1, 5], [0, 2, 10]], durs=[1, 2, 0])], alg=alg, delays=[1, 0]), segs))
    n = 0
    env = dict(os.environ, VK_REAL_PANDAS='1')
    for sc, segs in scs:
        p = subprocess.run([sys.executable, '-m', 'vk.realpd', json.dumps(sc), segs], capture_output=True, text=True, env=env, cwd='/verif')
        real = None
        for line in p.stdout.splitlines():
            if line.startswith('OUT '):
                real = json.loads(line[4:])
        if real is None:
            return {'status': 'ERROR', 'error': 'real-pandas run failed: ' + (p.stderr or p.stdout)[-1500:]}
        mine = plain_outputs(run_public(sc, [int(x) for x in segs.split(',')]))
        for key in ('table', 'events', 'tasks'):
            if mine[key] != real[key]:
                diff = [(a, b) for a, b in zip(mine[key], real[key]) if a != b][:2]
                return {'status': 'ERROR', 'error': f'pandas stub differs from real pandas in {key}: {diff} (lengths {len(mine[key])}/{len(real[key])})'}
        n += len(real['table']) + len(real['events']) + len(real['tasks'])
    return {'status': 'CONFIRMED', 'paths': len(scs), 'queries': 0, 'validated': n, 'detail': f'pandas stub == real pandas on {n} rows of 2 simulations (one paused twice)',
            'witnesses': [{'stub_validation_rows': n}]}
