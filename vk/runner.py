"""Orchestrates one property check: shards -> parallel solver jobs -> replay -> verdict -> evidence."""
import sys, os, json, time, subprocess, hashlib, importlib, inspect, concurrent.futures as cf

ROOT = '/verif'
PY = f'{ROOT}/.venv/bin/python'
NCPU = int(os.environ.get('VERIF_JOBS', os.cpu_count() or 4))


def log(*a):
    print(*a, file=sys.stderr, flush=True)


def child_env():
    e = dict(os.environ)
    e['PYTHONPATH'] = os.environ.get('VERIF_REPO', '/repo') + ':/verif'
    e['PYTHONDONTWRITEBYTECODE'] = '1'
    e.setdefault('PYTHONHASHSEED', '0')
    e['TOPSIM_VERIF'] = '1'
    return e


def run_child(modname, spec, hard_timeout):
    t0 = time.time()
    try:
        p = subprocess.run([PY, '-m', modname, json.dumps(spec)], capture_output=True, text=True,
                           timeout=hard_timeout, env=child_env(), cwd=ROOT)
    except subprocess.TimeoutExpired:
        return {'shard': spec.get('name'), 'status': 'INCOMPLETE', 'error': f'hard timeout {hard_timeout}s', 'paths': 0,
                'queries': 0, 'solver_s': 0, 'wall_s': round(time.time() - t0, 1), 'twin': bool(spec.get('twin')),
                'module': spec.get('module'), 'fn': spec.get('fn'), 'pin': spec.get('pin', {})}
    for line in p.stdout.splitlines():
        if line.startswith('RESULT '):
            r = json.loads(line[7:])
            r.setdefault('shard', spec.get('name'))
            return r
    return {'shard': spec.get('name'), 'status': 'ERROR', 'error': (p.stderr or p.stdout)[-2500:], 'paths': 0, 'queries': 0,
            'solver_s': 0, 'wall_s': round(time.time() - t0, 1), 'twin': bool(spec.get('twin')), 'module': spec.get('module'),
            'fn': spec.get('fn'), 'pin': spec.get('pin', {})}


def run_job(job):
    kind = job.get('kind', 'ch')
    budget = float(job.get('cond_timeout', 60))
    if kind == 'ch':
        return run_child('vk.engine', job, budget * 2.5 + 60)
    return run_child('vk.pyjob', job, budget + 30)


def replay_items(items, timeout=300):
    """items: [{module, fn, pin, args}] -> list of tags (or 'ERR:...'), run concretely in ONE fresh interpreter"""
    if not items:
        return []
    try:
        p = subprocess.run([PY, '-m', 'vk.replay', json.dumps(items)], capture_output=True, text=True, timeout=timeout,
                           env=child_env(), cwd=ROOT)
    except subprocess.TimeoutExpired:
        return ['ERR:replay-timeout'] * len(items)
    for line in p.stdout.splitlines():
        if line.startswith('REPLAY '):
            return json.loads(line[7:])
    return ['ERR:' + (p.stderr or p.stdout)[-800:]] * len(items)


def src_sha(fn):
    try:
        return hashlib.sha1(inspect.getsource(fn).encode()).hexdigest()[:12]
    except Exception:
        return 'n/a'


def load_findings():
    p = f'{ROOT}/known_findings.json'
    if not os.path.exists(p):
        return []
    return json.load(open(p)).get('findings', [])


SCALE = float(os.environ.get('VERIF_TIMEOUT_SCALE', '1'))     # development aid: scales every shard's time budget


def main(argv):
    if argv and argv[0] == '--replay':
        rp = json.load(open(argv[1]))
        tags = replay_items([rp['item']])
        print('replayed tag:', tags[0], '(stored:', rp.get('tag'), ')')
        return 1 if tags[0] and not str(tags[0]).startswith('ERR:') else 0
    prop = argv[0]
    tier = argv[1] if len(argv) > 1 else os.environ.get('VERIF_TIER', 'quick')
    seed = int(os.environ.get('VERIF_SEED', '0'))
    t0 = time.time()
    from vk import props
    pdef = props.PROPS[prop]
    findings = [f for f in load_findings() if f['property'] == prop]
    open_f = [f for f in findings if f.get('status') == 'open']
    known_tags = sorted({f['tag'] for f in open_f})

    jobs, functions, meta = [], {}, {'bounds': {}, 'outside_bounds': [], 'stubs': [], 'assumptions': []}
    for modname in pdef['modules']:
        mod = importlib.import_module(modname)
        for j in mod.shards(tier, prop):
            j = dict(j)
            j.setdefault('module', modname)
            j['known_tags'] = known_tags
            if SCALE != 1.0 and not j.get('twin'):
                j['cond_timeout'] = max(20.0, float(j.get('cond_timeout', 60)) * SCALE)
            j.setdefault('name', f"{modname.split('.')[-1]}:{j['fn']}:{json.dumps(j.get('pin', {}), sort_keys=True)}" + (':twin' if j.get('twin') else ''))
            jobs.append(j)
        for f in getattr(mod, 'FUNCTIONS', []):
            functions[f"{f.__module__}.{f.__qualname__}"] = src_sha(f)
        m = getattr(mod, 'META', {})
        meta['bounds'].update(m.get('bounds', {}))
        for k in ('outside_bounds', 'stubs', 'assumptions'):
            meta[k] += [x for x in m.get(k, []) if x not in meta[k]]
    # contracts may only sit on harness entry functions: the code under test must not carry PEP-316 lines
    rc = subprocess.run('grep -rEl "^\\s*(pre|post|inv|raises):" %s/topsim --include=*.py' % os.environ.get('VERIF_REPO', '/repo'), shell=True, capture_output=True, text=True)
    if rc.stdout.strip():
        log('harness error: PEP-316 contract lines found in code under test:', rc.stdout)
        return 2

    only = os.environ.get('VERIF_ONLY')                          # development aid: run only the shards whose name contains this text
    if only:
        jobs = [j for j in jobs if only in j['name']]
    jobs.sort(key=lambda j: -float(j.get('cond_timeout', 60)))
    log(f'[{prop}/{tier}] {len(jobs)} jobs on {NCPU} cores; open known findings: {known_tags}')
    results = []
    with cf.ThreadPoolExecutor(NCPU) as ex:
        for r in ex.map(run_job, jobs):
            results.append(r)
            log(f"  {r.get('status'):10s} {r.get('shard')}  paths={r.get('paths')} q={r.get('queries')} solver={r.get('solver_s')}s wall={r.get('wall_s')}s"
                + (f"  cex={r.get('cex')}" if r.get('status') == 'REFUTED' and not r.get('twin') else '')
                + (f"\n     {str(r.get('error'))[-1500:]}" if r.get('status') == 'ERROR' else ''))

    harness_errors, violations, replays_done, engine_notes = [], [], 0, []
    # 1. candidate counterexamples -> concrete replay against /repo, no tracer
    for r in results:
        if r.get('twin'):
            if r['status'] != 'REFUTED':
                harness_errors.append(f"vacuity twin {r['shard']} not refuted ({r['status']}): interesting point unreachable")
            continue
        if r['status'] == 'REFUTED':
            if r.get('cex') is None:
                harness_errors.append(f"{r['shard']}: counterexample could not be parsed: {r.get('cex_message')}")
                continue
            item = {'module': r['module'], 'fn': r['fn'], 'pin': r.get('pin', {}), 'args': r['cex']}
            tag = replay_items([item])[0]
            replays_done += 1
            if tag is None:
                # the symbolic run explores many paths in one interpreter: a model that fails only there may come from
                # state the code under test shares between separately constructed instances - replay it twice / three times
                for k in (2, 3):
                    t2 = replay_items([dict(item, repeat=k)])[0]
                    replays_done += 1
                    if t2 is not None and not str(t2).startswith('ERR:'):
                        item = dict(item, repeat=k)
                        tag = f'{t2}/only-on-run-{k}-in-one-interpreter:state-shared-between-separately-built-instances'
                        break
            if tag is None or str(tag).startswith('ERR:'):
                harness_errors.append(f"{r['shard']}: solver counterexample {r['cex']} did not reproduce concretely (replay -> {tag}); "
                                      f"encoding or stub wrong - not reported as a violation")
            elif tag in known_tags:
                # the concrete run (ground truth) shows a LISTED finding; the symbolic path computed another signature for it
                # (its model passes through float comparisons CrossHair approximates).  Nothing new is shown and nothing is
                # confirmed: the shard is inconclusive.
                r['status'] = 'INCOMPLETE'
                r['detail'] = f'model replays to the listed finding {tag}; symbolic signature differed (engine approximation) - inconclusive'
                engine_notes.append(f"{r['shard']}: {r['detail']}")
                log(f"  note: {r['shard']}: {r['detail']}")
            else:
                h = hashlib.sha1(json.dumps(item, sort_keys=True).encode()).hexdigest()[:10]
                path = f'{ROOT}/replays/{prop}-{h}.json'
                os.makedirs(f'{ROOT}/replays', exist_ok=True)
                json.dump({'property': prop, 'tag': tag, 'item': item, 'solver_message': r.get('cex_message'),
                           'how': f'./check --replay {path}'}, open(path, 'w'), indent=1)
                violations.append((tag, path))
        elif r.get('nondet'):
            wl = [{k: v for k, v in w.items() if not k.startswith('_')} for w in (r.get('witnesses') or [])[:4]]
            for k in (2, 3):
                items = [{'module': r['module'], 'fn': r['fn'], 'pin': r.get('pin', {}), 'args': a, 'repeat': k} for a in wl]
                tags = replay_items(items)
                replays_done += len(items)
                hit = [(it, t) for it, t in zip(items, tags) if t is not None and not str(t).startswith('ERR:') and t not in known_tags]
                if hit:
                    item, t2 = hit[0]
                    tag = f'{t2}/only-on-run-{k}-in-one-interpreter:state-shared-between-separately-built-instances'
                    h = hashlib.sha1(json.dumps(item, sort_keys=True).encode()).hexdigest()[:10]
                    path = f'{ROOT}/replays/{prop}-{h}.json'
                    os.makedirs(f'{ROOT}/replays', exist_ok=True)
                    json.dump({'property': prop, 'tag': tag, 'item': item, 'solver_message': r.get('cex_message'),
                               'how': f'./check --replay {path}'}, open(path, 'w'), indent=1)
                    violations.append((tag, path))
                    break
        elif r['status'] in ('VACUOUS', 'ERROR'):
            harness_errors.append(f"{r['shard']}: {r['status']} {str(r.get('error') or r.get('messages'))[-600:]}")

    # 2. engine-fidelity: some path witnesses re-run concretely must give the tag the symbolic path computed
    wit_items, wit_expect = [], []
    for r in results:
        if r.get('twin') or r.get('kind') == 'py':
            continue
        for w in (r.get('witnesses') or [])[:2]:
            args = {k: v for k, v in w.items() if not k.startswith('_')}
            wit_items.append({'module': r['module'], 'fn': r['fn'], 'pin': r.get('pin', {}), 'args': args})
            wit_expect.append(w.get('_tag'))
    wit_items, wit_expect = wit_items[:40], wit_expect[:40]
    got = replay_items(wit_items)
    replays_done += len(got)
    for it, e, g in zip(wit_items, wit_expect, got):
        if g != e:
            harness_errors.append(f"witness {it['fn']}{it['args']} pin={it['pin']}: symbolic path tag {e!r} != concrete tag {g!r}")

    # 3. known findings: replay each open one; print KNOWN-FINDING if it still fails that way
    known_seen = []
    for f in open_f:
        tag = replay_items([f['witness']])[0] if f.get('witness') else f['tag']
        replays_done += 1
        if tag == f['tag']:
            print(f"KNOWN-FINDING: property={prop} {f['description']}")
            known_seen.append(f['tag'])
        else:
            log(f"  note: listed finding {f['tag']} no longer reproduces (replay -> {tag})")

    for tag, path in violations:
        print(f'VIOLATION property={prop} replay={path}')
        log(f'  violation tag: {tag}')

    main_r = [r for r in results if not r.get('twin')]
    paths = sum(int(r.get('paths') or 0) for r in results)
    queries = sum(int(r.get('queries') or 0) for r in results)
    samples = []
    for r in main_r:
        for w in (r.get('witnesses') or [])[:2]:
            samples.append({'shard': r['shard'], 'inputs': w})
    samples = samples[:12] or [{'shard': r['shard'], 'status': r['status']} for r in results[:5]]
    obligations = sum(int(r.get('obligations') or 0) for r in results)
    discharged = sum(int(r.get('discharged') or 0) for r in results)
    validated = replays_done + sum(int(r.get('validated') or 0) for r in results)
    incomplete = [r['shard'] for r in main_r if r['status'] == 'INCOMPLETE']
    ev = {
        'property_id': prop, 'tier': tier, 'seed': seed, 'level': 'model_checking',
        'coverage': {
            'states': max(paths, 1) if results else 0, 'transitions': max(queries, 1) if results else 0,
            'traces_validated_against_impl': validated, 'samples': samples,
            'exhaustive': bool(main_r) and all(r['status'] == 'CONFIRMED' for r in main_r),
            'explanation': 'states = execution paths explored symbolically (each covers every input satisfying its path condition); '
                           'transitions = SMT solver check() calls; a shard is decided only when CrossHair exhausts its path tree (CONFIRMED) '
                           'or returns a model that replays concretely (VIOLATION)',
            'functions_encoded': functions, 'bounds': meta['bounds'], 'outside_bounds': meta['outside_bounds'],
            'stubs': meta['stubs'], 'obligations': obligations, 'discharged': discharged,
            'solver_s': round(sum(float(r.get('solver_s') or 0) for r in results), 2),
            'shards': [{k: r.get(k) for k in ('shard', 'status', 'paths', 'queries', 'solver_s', 'wall_s', 'twin', 'points', 'detail') if r.get(k) is not None} for r in results],
            'shards_confirmed': sum(1 for r in main_r if r['status'] == 'CONFIRMED'),
            'shards_incomplete': incomplete, 'twins_refuted': sum(1 for r in results if r.get('twin') and r['status'] == 'REFUTED'),
            'known_findings_seen': known_seen, 'harness_errors': harness_errors, 'engine_notes': engine_notes, 'time_budget_scale': SCALE,
        },
        'assumptions': meta['assumptions'] + meta['stubs'],
        'wall_s': round(time.time() - t0, 1), 'violations': len(violations),
    }
    evdir = os.environ.get('VERIF_EVIDENCE_DIR', f'{ROOT}/evidence')
    os.makedirs(evdir, exist_ok=True)
    json.dump(ev, open(f'{evdir}/{prop}.json', 'w'), indent=1, default=str)
    log(f"[{prop}/{tier}] paths={paths} queries={queries} confirmed={ev['coverage']['shards_confirmed']}/{len(main_r)} "
        f"incomplete={len(incomplete)} violations={len(violations)} errors={len(harness_errors)} wall={ev['wall_s']}s")
    if violations:
        return 1
    if harness_errors:
        for e in harness_errors:
            log('HARNESS-ERROR:', e)
        return 2
    return 0


if __name__ == '__main__':
    sys.exit(main(sys.argv[1:]))
