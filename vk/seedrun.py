"""Runs one scenario through the public Simulation API with the interpreter's REAL set/hash behaviour and prints a digest
of the outputs.  Used to confirm hash-order counterexamples of C10 across processes with different PYTHONHASHSEED."""
import sys, json, hashlib
sys.setrecursionlimit(10000)

if __name__ == '__main__':
    sc = json.loads(sys.argv[1])
    from vk import simh
    sim = simh.run_public(sc, [int(sys.argv[2])])
    out = simh.outputs(sim)
    out.pop('event_rows', None)
    out.pop('state', None)          # C10 is about the outputs a user gets: per-timestep table, task table, event log
    print('DIGEST ' + hashlib.sha1(json.dumps(out, sort_keys=True, default=str).encode()).hexdigest())
