"""Common harness kit: environment stubs (DESIGN section 4) and builders of real topsim objects.

Importing this module rebinds, inside the checker process only, a few module globals of topsim
(never a file under /repo):
  E1 scheduler.time -> constant clock     E2 scheduler.tqdm -> None      E3 logging disabled
  E4 pd -> vk.fakepd in cluster/buffer/scheduler/telescope/monitor/simulation (only when use_fakepd())
"""
import logging, types
import simpy

logging.disable(logging.CRITICAL)

import topsim.core.scheduler as S
import topsim.core.cluster as C
import topsim.core.buffer as B
from topsim.core.cluster import Cluster
from topsim.core.machine import Machine
from topsim.core.task import Task, TaskStatus

S.tqdm = lambda **kw: None
S.time = types.SimpleNamespace(time=lambda: 0.0)
B.tqdm = lambda **kw: None


def use_fakepd():
    from vk import fakepd
    import os
    if os.environ.get('VK_REAL_PANDAS'):
        return fakepd                      # stub validation runs: leave the real pandas in place
    import topsim.core.monitor as M, topsim.core.simulation as SIM, topsim.user.telescope as T
    import topsim.user.schedule.dynamic_plan as DP, topsim.user.schedule.greedy as GR
    for m in (S, C, B, M, SIM, T, DP, GR):
        m.pd = fakepd
    return fakepd


class FakeCfg:
    """stands in for Config at the Cluster/Buffer constructor boundary (no file I/O)"""

    def __init__(self, n=3, cpus=None, bws=None, hot=None, cold=None, instrument=None):
        self.n, self.cpus, self.bws, self.hot, self.cold, self.instrument = n, cpus, bws, hot, cold, instrument

    def parse_instrument_config(self, name):
        return self.instrument            # (total_arrays, pipelines, observations, max_ingest)

    def parse_cluster_config(self):
        return [Machine(f"m{i}", (self.cpus or [10] * self.n)[i], 1, 1, (self.bws or [10] * self.n)[i]) for i in range(self.n)], 1

    def parse_buffer_config(self):
        return {0: self.hot}, {0: self.cold}


class Obs:
    """minimal stand-in for an Observation where only name/duration are read (ingest provisioning)"""

    def __init__(self, name, duration):
        self.name, self.duration = name, duration


def drain(env):
    """run every event scheduled for the current instant"""
    while env.peek() == env.now:
        env.step()


def pool_ids(c):
    r = c._resources
    ids = [m.id for m in r['available']] + [m.id for m in r['ingest']] + [m.id for m in r['occupied']]
    for k in r['idle']:
        ids += [m.id for m in r['idle'][k]]
    return ids


def snapshot(c):
    r = c._resources
    return ([m.id for m in r['available']], [m.id for m in r['ingest']], [m.id for m in r['occupied']],
            {k: [m.id for m in v] for k, v in r['idle'].items()})


def cluster_invariant(c, check_reservation_count=True):
    """C02 representation invariant, computed from the pools (independent of the code under test).
    Returns a violation tag or None."""
    r = c._resources
    n = len(c.machines)
    ids = pool_ids(c)
    if sorted(ids) != sorted(m.id for m in c.machines):
        return 'C02/partition'
    u = c._usage_data
    if u['available'] != n - len(r['ingest']) - len(r['occupied']):
        return 'C02/count-available'
    if u['running_tasks'] != len(c._tasks['running']):
        return 'C02/count-running'
    if u['finished_tasks'] != sum(1 for v in c._tasks['finished'].values() if v):
        return 'C02/count-finished'
    if check_reservation_count and c.num_provisioned_obs != len(r['idle']):
        return 'C02/count-reservations'
    return None


def new_cluster(n=3, cpus=None, bws=None, start=True):
    env = simpy.Environment()
    c = Cluster(env, FakeCfg(n, cpus, bws))
    if start:
        env.process(c.run())
    return env, c


def mk_task(tid, dur=2, preds=None, io=None, flops=0, data=0, machine_id=None, est=0):
    return Task(tid, est, est + dur, machine_id, preds or [], flops, data, io if io is not None else {}, None)


# pool codes used by "cluster in a symbolic state" harnesses
AVAILABLE, INGEST, OCCUPIED, RES_A, RES_B, RES_A_BUSY = 0, 1, 2, 3, 4, 5


def cluster_in_state(pools, n=None, cpus=None, bws=None, busy_dur=3):
    """Real Cluster driven by a *prelude* into the state where machine i is in pool pools[i]
    (0 available, 1 running ingest, 2 running a workflow task, 3 reserved-idle for 'A', 4 reserved-idle for 'B',
    5 running a task of A on a machine of A's reservation).
    The state is produced by the real API (provision_ingest_resources / allocate_task_to_cluster /
    _add_idle_resource), so suspended generators and counters are consistent with it."""
    n = n or len(pools)
    env, c = new_cluster(n, cpus, bws)
    drain(env)
    # order: reservations first, then workflow tasks, then ingest (ingest takes available[:demand] in list order)
    for i in range(n):
        if pools[i] == RES_A or pools[i] == RES_A_BUSY:
            c._add_idle_resource('A', c.machines[i])
        elif pools[i] == RES_B:
            c._add_idle_resource('B', c.machines[i])
    c.num_provisioned_obs = len(c._resources['idle'])
    for i in range(n):
        if pools[i] == OCCUPIED or pools[i] == RES_A_BUSY:
            t = mk_task(f"pre_{i}", busy_dur)
            t.task_status = TaskStatus.SCHEDULED
            # code 5: a task of workflow A running on a machine taken from A's own reservation
            env.process(c.allocate_task_to_cluster(t, c.machines[i], None, 'A' if pools[i] == RES_A_BUSY else None))
    drain(env)
    ing = [i for i in range(n) if pools[i] == INGEST]
    if ing:
        # put the wanted machines at the front of 'available' so that the real provisioning picks them
        av = c._resources['available']
        front = [c.machines[i] for i in ing]
        rest = [m for m in av if m not in front]
        av[:] = front + rest
        env.process(c.provision_ingest_resources(len(ing), Obs('pre_ing', busy_dur)))
        drain(env)
    return env, c
