"""Minimal tabular stub standing in for pandas inside symbolic harnesses (DESIGN E4).
pandas cannot be entered from traced code; the topsim modules' `pd` global is rebound to this module inside the
checker process.  Only the operations topsim uses are provided; vk.simh.validate_fakepd() compares it cell-for-cell
with real pandas on a concrete simulation on every run."""
class Frame:
    def __init__(self, data=None):
        self.cols = []      # ordered column names
        self.rows = []      # list of dict
        self.index = None   # optional row labels
        if data is None:
            return
        if isinstance(data, Frame):
            self.cols = list(data.cols); self.rows = [dict(r) for r in data.rows]; self.index = data.index
        elif isinstance(data, list):          # list of dicts -> one row each
            for d in data:
                for k in d:
                    if k not in self.cols: self.cols.append(k)
                self.rows.append(dict(d))
        elif isinstance(data, dict):
            vals = list(data.values())
            if vals and all(isinstance(v, dict) for v in vals):   # dict of dicts: columns=outer keys, index=inner keys
                self.cols = list(data.keys())
                idx = []
                for v in vals:
                    for k in v:
                        if k not in idx: idx.append(k)
                self.index = idx
                self.rows = [{c: data[c].get(i) for c in self.cols} for i in idx]
            else:                                                   # dict of lists
                self.cols = list(data.keys())
                n = len(vals[0]) if vals else 0
                self.rows = [{c: data[c][i] for c in self.cols} for i in range(n)]
    def __setitem__(self, col, values):
        if not isinstance(values, list): values = [values] * max(len(self.rows), 1)
        if col not in self.cols: self.cols.append(col)
        if not self.rows: self.rows = [dict() for _ in values]
        for r, v in zip(self.rows, values): r[col] = v
    def __getitem__(self, col):
        if isinstance(col, list):             # column selection: every label must exist (pandas raises KeyError otherwise)
            missing = [c for c in col if c not in self.cols]
            if missing:
                raise KeyError(f"{missing} not in index" if len(missing) < len(col) else f"None of [{col}] are in the [columns]")
            out = Frame(); out.cols = list(col); out.index = self.index
            out.rows = [{c: r.get(c) for c in col} for r in self.rows]
            return out
        if col not in self.cols:
            raise KeyError(col)
        return [r.get(col) for r in self.rows]
    def __len__(self): return len(self.rows)
    def join(self, others, how='outer'):
        out = Frame(self)
        if not out.rows: out.rows = [dict()]
        for o in others:
            for c in o.cols:
                if c not in out.cols: out.cols.append(c)
            for r, orow in zip(out.rows, o.rows): r.update(orow)
        return out
    def infer_objects(self): return self
    def fillna(self, v): return self
    @property
    def T(self):
        out = Frame(); out.cols = list(self.index or range(len(self.rows))); out.index = list(self.cols)
        out.rows = [{i: self.rows[k].get(c) for k, i in enumerate(out.cols)} for c in self.cols]
        return out
def DataFrame(data=None): return Frame(data)
def concat(frames, ignore_index=False):
    out = Frame()
    for f in frames:
        for c in f.cols:
            if c not in out.cols: out.cols.append(c)
        out.rows.extend(dict(r) for r in f.rows)
    return out
class HDFStore: pass
