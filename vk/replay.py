"""Concrete replay of harness inputs against /repo (no tracer): python -m vk.replay '<json list of items>'
item = {module, fn, pin, args}; prints  REPLAY <json list of tags>  (tag None = property held)."""
import sys, json, importlib, logging, traceback
sys.setrecursionlimit(10000)
logging.disable(logging.CRITICAL)


def run_item(it):
    mod = importlib.import_module(it['module'])
    mod.PIN.clear()
    mod.PIN.update(it.get('pin', {}))
    from vk import wit
    wit.TWIN = False
    f = getattr(mod, it['fn'] + '_tag')
    try:
        # 'repeat': the same inputs run k times in this one interpreter (every run builds fresh topsim objects); a tag
        # that only the k-th run gives means the code under test keeps state between independently built instances
        for _ in range(int(it.get('repeat', 1)) - 1):
            f(**it['args'])
        return f(**it['args'])
    except Exception as ex:
        return 'ERR:' + ''.join(traceback.format_exception_only(type(ex), ex))[-300:] + traceback.format_exc()[-600:]


if __name__ == '__main__':
    items = json.loads(sys.argv[1])
    print('REPLAY ' + json.dumps([run_item(i) for i in items]), flush=True)
