"""Bit-precise floating-point cut lemmas (DESIGN 3.2), discharged on every run as QF_BVFP queries.
L1  int(a / b) == a // b                       a, b non-negative ints below 2^bits, b > 0
L2  (a / b > 0.6) == (5a > 3b) and (a / b < 0.6) == (5a < 3b)
L3  b | a  =>  float(a / b) == a // b exactly  (so x = a / b carries no rounding into later +/-)
"""
import time
import z3

PIN = {}


def _fp(bits):
    a = z3.BitVec('a', 64)
    b = z3.BitVec('b', 64)
    cons = [z3.ULT(a, z3.BitVecVal(1 << bits, 64)), z3.ULT(b, z3.BitVecVal(1 << bits, 64)), b != 0]
    fa = z3.fpUnsignedToFP(z3.RNE(), a, z3.Float64())
    fb = z3.fpUnsignedToFP(z3.RNE(), b, z3.Float64())
    return a, b, cons, z3.fpDiv(z3.RNE(), fa, fb)


def goal(name, bits):
    a, b, cons, q = _fp(bits)
    if name == 'L1':
        neg = z3.fpToUBV(z3.RTZ(), q, z3.BitVecSort(64)) != z3.UDiv(a, b)
    elif name == 'L2':
        k = z3.FPVal(0.6, z3.Float64())
        neg = z3.Or(z3.fpGT(q, k) != z3.UGT(5 * a, 3 * b), z3.fpLT(q, k) != z3.ULT(5 * a, 3 * b))
    elif name == 'L3':
        exact = z3.fpUnsignedToFP(z3.RNE(), z3.UDiv(a, b), z3.Float64())
        cons = cons + [z3.URem(a, b) == 0]
        neg = z3.Not(z3.fpEQ(q, exact))
    else:
        raise ValueError(name)
    return cons, neg


def lemma(spec):
    name, bits = spec['pin']['lemma'], int(spec['pin']['bits'])
    budget = float(spec.get('cond_timeout', 120))
    cons, neg = goal(name, bits)
    s = z3.Solver()
    s.set('timeout', int(budget * 1000))
    s.add(*cons)
    s.add(neg)
    t = time.perf_counter()
    r = str(s.check())
    dt = time.perf_counter() - t
    res = {'paths': 1, 'queries': 1, 'solver_s': round(dt, 2), 'obligations': 1, 'discharged': 1 if r == 'unsat' else 0,
           'detail': f'{name} for operands < 2^{bits}: z3 {r} in {dt:.1f}s (QF_BVFP, fp.div RNE, to_ubv RTZ)',
           'witnesses': [{'lemma': name, 'bits': bits, 'solver': 'z3', 'answer': r}]}
    if r == 'unsat':
        res['status'] = 'CONFIRMED'
    elif r == 'sat':
        m = s.model()
        res['status'] = 'ERROR'
        res['error'] = f'lemma {name} is FALSE at {m}: the integer encoding of Engine B would be unsound'
    else:
        res['status'] = 'INCOMPLETE'
    return res


def jobs(names, tier):
    bits = 8 if tier == 'quick' else 11
    return [{'kind': 'py', 'module': 'vk.lemmas', 'fn': 'lemma', 'pin': {'lemma': n, 'bits': bits}, 'cond_timeout': 120 if tier == 'quick' else 900,
             'name': f'lemma:{n}:{bits}bit'} for n in names]
