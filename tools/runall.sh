#!/bin/bash
# development aid: run every property's check of the given tier sequentially, one summary line each
tier=${1:-quick}
cd /verif
for p in C01 C02 C03 C04 C05 C06 C07 C08 C09 C10 C11 C12 C13 C14 C15 C16 C17 C18 C19; do
  s=$(date +%s)
  ./check $p $tier > .work/out_$p.txt 2> .work/err_$p.txt; rc=$?
  e=$(date +%s)
  echo "$p rc=$rc wall=$((e-s))s $(grep -c '^VIOLATION' .work/out_$p.txt) violations; $(grep -c '^KNOWN-FINDING' .work/out_$p.txt) known; $(tail -1 .work/err_$p.txt | cut -c1-160)"
done
