"""Writes the prompt files for a wave of independent sub-agents that seed property-breaking changes.
usage: mkprompts.py <suffix> <pid> [<pid> ...]   -> /tmp/prompts/<pid><suffix>.txt (worktree /tmp/wt_<pid>)
Each agent gets only the property's text, its own scratch worktree and one-line descriptions of changes already tried."""
import json, os, sys
T = '''You are helping to evaluate a verification suite for the open-source Python project top-sim/topsim (a SimPy-based discrete-event simulator of telescope observation ingest, hot/cold buffer storage and workflow scheduling on a modelled compute cluster).

Your own scratch git worktree of the repository is at {wt} (work ONLY there; never touch /repo or /verif, and do not read anything under /verif). The package is importable with PYTHONPATH={wt}; use the interpreter /venv/bin/python (it has simpy, networkx, pandas, numpy). The test suite is run with:
  cd {wt} && /venv/bin/python -m pytest -q -p no:cacheprovider --timeout=900 --continue-on-collection-errors
On the unmodified tree exactly 30 tests pass (3 fail and 8 modules error at collection because optional dependencies are missing - that is the baseline; it must stay exactly the same 30 passing tests).
Notes: the sample workflow JSON files shipped in the repo do not load with the installed networkx (they use the key "links"; networkx 3.6 wants "edges"), and the SHADOW planner is not installed, so to run a simulation write your own tiny config + workflow JSON (node-link format with an "edges" key) and use topsim.user.plan.batch_planning.BatchPlanning('batch') with BatchProcessing / QueueProcessing from topsim.user.schedule. topsim/core/simulation.py shows how the actors are wired; test/ shows how they are used individually.

THE PROPERTY (this is all you are given about what the suite checks):
  id: {id}
  title: {title}
  statement: {statement}
  quantified over: {quant}

{tried}YOUR TASK: produce ONE realistic change (a plausible bug a developer could introduce: a refactoring slip, a wrong comparison, a missing update, an off-by-one, a wrong accessor, two cooperating edits that each look fine alone ...) to the topsim source under {wt}/topsim that BREAKS this property, while the package still imports, and the existing test suite still gives exactly the same 30 passing tests. The change must need something specific to manifest - a particular interleaving, a multi-step sequence of operations, an unusual input or boundary value, or a particular combination of configuration values - NOT something that every ordinary run would expose at once (e.g. do not make every simulation crash). Keep it small (a few lines). Do not edit tests. Do not add new files to the package.

Then write a DEMONSTRATION: a small stand-alone Python script {wt}/demo_{name}.py that exercises the real topsim code (public classes/functions; building objects directly is fine) and exits with status 1 printing what went wrong when run against your modified tree, and exits 0 when run against the unmodified tree (check both, switching as described in note (b), and leave the modified tree in place at the end).

Finally produce the patch: `git -C {wt} diff -- topsim > {wt}/patch_{name}.diff`.

Report back (plain text): the path of the patch and of the demo, a one-paragraph description of the change, what specific circumstances it needs in order to manifest, and the exact output of: the test suite summary line on the modified tree, the demo on the modified tree, the demo on the unmodified tree.'''
TRIED = '''ALREADY TRIED by others (do NOT produce any of these changes or a close variant; pick a different function, clause or mechanism - e.g. an off-by-one in a loop bound or comparison, a state update moved across a yield, an early return that skips bookkeeping, a default argument, a container aliasing slip, a value cached too early, or something in code the property depends on only indirectly):
{items}

Notes: (a) on the unmodified tree there is a known, pre-existing limitation to steer clear of in demonstrations that run whole simulations: an observation that gets moved to the cold buffer (hot buffer more than 60% used) never comes back and the simulation then never finishes; keep the total data well below 60% of the hot buffer. (b) Do NOT use `git stash` (it is shared between worktrees and other people are working in sibling worktrees right now); to compare with the unmodified tree use `git diff -- topsim > my.diff; git apply -R my.diff; ... ; git apply my.diff`.{extra}

'''
EXTRA = {'C17': " (c) the plan-following scheduling policy is topsim.user.schedule.dynamic_plan.DynamicSchedulingFromPlan; the static planner that normally produces its plans (SHADOW) is not installed, so for the demonstration write a small Planning subclass (see topsim/algorithms/planning.py and topsim/user/plan/static_planning.py for the shape of the plan it must return) that assigns each task a machine of your choice."}


def main(suffix, pids):
    props = {json.loads(l)['id']: json.loads(l) for l in open('/verif/properties.jsonl')}
    os.makedirs('/tmp/prompts', exist_ok=True)
    for pid in pids:
        p = props[pid]
        ms = [json.load(open(f'/verif/seeded/{d}/meta.json')) for d in sorted(os.listdir('/verif/seeded')) if d[:3] == pid and os.path.exists(f'/verif/seeded/{d}/meta.json')]
        items = '\n'.join(f"  {i + 1}. {m['change']} (it needed: {m['needs_to_manifest']})" for i, m in enumerate(ms))
        tried = TRIED.format(items=items, extra=EXTRA.get(pid, ''))
        open(f'/tmp/prompts/{pid}{suffix}.txt', 'w').write(T.format(wt=f'/tmp/wt_{pid}', id=pid, name=pid + suffix, title=p['title'], statement=p['statement'],
                                                                  quant=p['quantifier']['text'], tried=tried))


if __name__ == '__main__':
    main(sys.argv[1], sys.argv[2:])
