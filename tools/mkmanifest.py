"""Regenerates /verif/MANIFEST.json from vk/props.py and the per-property texts below."""
import json, sys
sys.path[:0] = ['/verif']

TECH = 'solver-based bounded symbolic execution of the real code (CrossHair 0.0.110 + z3 5.1)'
TEXT = {
    'C01': ('Real Scheduler._process_current_schedule / Cluster.allocate_task_to_cluster / Task.do_work under real SimPy from every pool vector of a 3-machine cluster with solver-chosen adversarial proposals (busy, duplicated, reserved, foreign machines); one round of each shipped algorithm on a symbolic plan; whole-simulation runs with an adversarial algorithm; after the adversarial proposals an honest ingest takes every machine still listed as available.',
            'Bounds: 3 machines, 2 proposals per round, 2 concurrent workflows, horizon <= 60 steps. "Executing" = between entry and exit of Task.do_work in SimPy event order.'),
    'C02': ('Every operation history up to depth 3 (quick) / 4 (thorough) on a 3-machine real Cluster under real SimPy, plus one operation from every pool vector reachable by prelude (inductive step) and the invariant after every step of whole simulations; each shard decided by path-tree exhaustion.',
            'Bounds: 3 machines, 2 reservation names, task duration 2. num_provisioned_obs is asserted only on histories that follow the provisioning protocol.'),
    'C03': ('Engine B proves start == max(allocation time, predecessor finish + volume/bandwidth) for <= 3 cross-machine predecessors over unbounded integers from the current source of Task._wait_for_transfer/do_work; CrossHair decides _find_pred_allocations, a case-split box of finish times x volumes on the real do_work (Engine-A companion of the Engine-B result) and one round of each shipped algorithm on symbolic DAG/finished maps; whole simulations (incl. volumes that are not multiples of the bandwidth, one predecessor feeding successors over edges of different volume) check the task table against the scenario graph, not against the plan under test.',
            'Exact under bandwidth | volume (lemma L3, solver-checked to 2^8/2^11 bits); rational reading otherwise. DAGs <= 3 tasks in whole-simulation runs.'),
    'C04': ('Whole bounded simulations of the real actors (real SimPy, real networkx, pandas stub) under Batch/Queue/adversarial algorithms and injected delays; on return: every observation observed once, every ingest and workflow task activated exactly once, quiescent state, task table has one row per executed task; a run under a shipped algorithm that is aborted by an exception is reported as well, as is one aborted under a user algorithm that only proposes the same free machine several times in one call (the Scheduler defers duplicates).',
            'Bounds: <= 3 observations, <= 3 tasks, starts 0..4, durations 1..3; time-like inputs are case-split by the solver and each case runs natively.'),
    'C05': ('Unit harness "a transient shortage only postpones" (machines busy / ingest limit used up for k steps, buffer sizes unbounded symbolic); whole simulations with a step cap equal to the serial bound of the statement: unbounded symbolic data rates/capacities (traced end to end) and case-split timing grids with machine/ingest-limit shortage, three simultaneous starts and non-topological node labels; one round of the greedy algorithm on symbolic states; any exception or hitting the cap is a violation tagged by site / blocked-state signature.',
            'Two open known findings (tiering strands an observation in the cold buffer). Symbolic-size shards are bug-hunting only unless they exhaust (reported per shard). Horizon <= ~80 steps.'),
    'C06': ('Engine B: Task.do_work/calculate_runtime executed symbolically from their current source into z3 integer terms; runtime formula, at-least-one, exit instant, flagging and monotonicity proved over unbounded integers (z3, cross-checked by cvc5); also through the scheduler path (update_allocation then do_work); float division cut by lemma L1 (QF_BVFP, checked each run); CrossHair end-to-end harnesses with the real cluster poll, task table and scheduler path; machine speeds 1..3 and the non-integer 1.5, 2.5; whole simulations check the recorded runtime of every task, and of every ingest task against the duration of its observation (also when it began late).',
            'L1 solver-checked for operands < 2^8 (quick) / 2^11 (thorough), argued to 2^26, not claimed above.'),
    'C07': ('Unit harnesses with unbounded symbolic rates/capacities: ingest stream deposits rate per step for duration steps, removal frees exactly the data once, admission predicate equals the room oracle (including data still to arrive), two overlapping ingests through the real admission path, the data of a finished workflow freed while another observation is mid-ingest, two Buffer objects built in one interpreter share nothing; whole simulations check both tiers after every step.',
            'Bounds: durations 1..4, two overlapping observations. Refusal paths that format operands into messages run over small case-split ranges.'),
    'C08': ('One timestep of the real Telescope/Scheduler/Cluster/Buffer from symbolic load states (pools by prelude incl. machines reserved-idle for a batch workflow, arrays in use, unbounded buffer space/rates, two observations due); every started observation is checked against the state after earlier starts of the same step; on-time clause for an idle system; whole simulations (incl. four observations competing for the arrays) check array/ingest limits independently of the counter kept by the telescope and of the status flags of the observations (arrays are held during [begin, begin + duration)), and ingest hold times.',
            'Bounds: 3 machines, 2 observations per step; quick tier varies array and machine resources in separate shards.'),
    'C09': ('Real BatchProcessing._provision_resources/_max_resource_provision/run on symbolic cluster states (1..4 machines, pools, partitions, minimum, per-observation split); foreign reserved machine refused; release returns the reservation; whole simulations with competing workflows check every allocation against the owner reservation and, every step, the size of each reservation (idle + busy for its owner) against its configured maximum.',
            'min_resources_per_workflow >= 1 (documented domain).'),
    'C10': ('Two whole simulations of the same configuration inside one path with independent symbolic iteration ranks for the ready-task set (RankSet abstraction of hash order); outputs must be equal; counterexamples are confirmed by searching real PYTHONHASHSEED values in sub-processes before they are reported; the builtin hash seen by topsim modules salts strings differently in the two runs (planner-owned seeded delay model); seeded delay streams equal for seeds 0, 7, 20, a second seed/degree asked afterwards draws from its own stream; workflow node names that are strings sharing a trailing number; a second simulation given the planning object of the first one, with real workflow files parsed by the real planner; the real-interpreter runs under different PYTHONHASHSEED validate the abstraction.',
            "CPython's actual set layout is not modelled: rank orders over-approximate hash seeds; cross-process equality is replayed, not proved."),
    'C11': ('Real Simulation.start(k) + resume(...) against one uninterrupted start(T) for every pause point k and second cut j (solver case-split), also with j as the final horizon and with a first observation that starts after the earliest pauses; state, step table, task table and event log compared; refusals of start-twice / resume-before-start leave everything unchanged.',
            'T = 16, two resume segments, two observations, Batch and Queue.'),
    'C12': ('Whole simulations with a probe process registered ahead of the monitor: every row of the per-timestep table equals the state computed independently from pools/lists, one row per step in order; the buffer columns also against the data resident (streamed in, not yet removed) and the finished-observations column against elapsed observation windows, both independent of the counters and flags kept by the actors; fixed-horizon runs through the public API beyond completion (in one piece and paused), also with durations that are not a whole number of timesteps.',
            'Bounds as C04; overlapping ingests ending at different times included.'),
    'C13': ('Same runs as C12; event log checked per observation: each of the eight transitions exactly once, correct stamps, causal order, finished - started == duration (also checked on the partial log of a run that hits the step cap); paused fixed-horizon runs: no transition logged twice.',
            'Bounds as C04.'),
    'C14': ('Real Planner.run -> BatchPlanning.generate_plan (real networkx) on symbolic DAGs: adjacency bits, compute, optional data demand and edge volumes are solver variables, node labels permuted, edges inserted in either order; plan compared with the graph; predecessor/successor queries mutually inverse; the same planner plans a second observation from the same workflow and the first plan is checked again.',
            'Bounds: <= 3 nodes (quick) / 4 nodes all permutations (thorough); unbounded integer attributes.'),
    'C15': ('Real DelayModel.generate_delay with numpy replaced by a generator stub whose draws are solver variables: no exception, never shorter, unchanged for degree none / prob 0 / runtime 0, deterministic per seed, a second seed used afterwards draws from its own stream; real Task.do_work + Scheduler._update_current_plan for the flag and DELAYED status (delayed task recorded with tasks left to run, and by the pass that empties the plan); whole simulations with injected delay vectors check at every step that the delayed report persists.',
            "numpy's distributions are replaced by contract E7 (seeded streams deterministic, unseeded fresh, normal(mu,0)=mu, poisson(0)=0). Runtimes 0..6."),
    'C16': ('CrossHair on the real Config.parse_cluster_config / parse_buffer_config with a symbolic unit (string or integer) and unbounded rates, every section parsed twice from one Config object; Engine B slices of the three multiplier ladders and of the Observation(...) arguments in parse_instrument_config; derived invariants as two-copy queries.',
            'Whole multiples of the unit (lemma L3); round() of integer rates.'),
    'C17': ('Real DynamicSchedulingFromPlan.run on symbolic cluster states and static plans (stub for the absent SHADOW planner); whole simulations under contention check the executed machine of every task against its plan (machines of unequal speed and bandwidth in no particular order).',
            'Static planner output is arbitrary (stub E6), not HEFT specifically.'),
    'C18': ('Real Buffer.move_hot_to_cold / move_cold_to_hot as SimPy processes with unbounded symbolic size, both rates, capacities and other resident data: per-step conservation, slower rate, ceil(size/rate) steps, exactly one tier afterwards, refused move leaves everything unchanged, round trip.',
            'Moves of <= 3 transfer steps (quick) / 6 (thorough).'),
    'C19': ('Each idle/empty/finished query against an independent oracle on symbolic actor states built by prelude (every pool vector, unbounded buffer sizes, observation states, array total independent of the demands), and Simulation.is_finished iff all four; buffer capacities 10^3..10^18; the same comparison at every step of whole simulations.',
            'Bounds: 3 machines, 2 observations at unit level.'),
}


def main():
    from vk import props
    plist = [json.loads(l) for l in open('/verif/properties.jsonl')]
    claimed = set(props.PROPS)
    man = {
        "version": 1, "setup_cmd": "./setup.sh",
        "hooks": {"guard": "TOPSIM_VERIF", "enable": "no source hook exists: checks interpose on module globals inside the checker process only (./check exports TOPSIM_VERIF=1 for future hooks)",
                  "baseline_off_cmd": "cd /repo && /venv/bin/python -m pytest -ra -q -p no:cacheprovider --timeout=900 --continue-on-collection-errors",
                  "source_commits": [], "add_only": True},
        "engines": [
            {"name": "crosshair-driver", "path": "vk/engine.py", "serves_properties": sorted(claimed),
             "kind_free_text": "bounded symbolic execution of the real topsim classes under the real SimPy kernel with CrossHair 0.0.110 + z3 5.1; a shard is decided when the path tree is exhausted (Confirmed over all paths) or a solver model replays concretely"},
            {"name": "smtkit", "path": "vk/smtkit.py", "serves_properties": sorted(claimed & {'C03', 'C05', 'C06', 'C16'}),
             "kind_free_text": "AST -> z3 symbolic execution of loop-free scalar kernels read from /repo's current source; obligations over unbounded integers discharged by z3 and cross-checked by cvc5; float operations cut by bit-precise QF_BVFP lemmas"}],
        "checks": [], "not_applicable": [],
        "notes": "All checks: ./check <ID> quick|thorough. Exit 0 held / 1 reproduced violation / 2 harness error. Known findings: known_findings.json."}
    for p in plist:
        pid = p['id']
        if pid in claimed:
            text, note = TEXT[pid]
            man['checks'].append({
                "property_id": pid, "quick_cmd": f"./check {pid} quick", "thorough_cmd": f"./check {pid} thorough",
                "evidence_file": f"/verif/evidence/{pid}.json", "replay_cmd_template": "./check --replay {path}", "engine": "crosshair-driver",
                "level_claimed": {"category": "model_checking", "text": text, "design_ref": f"DESIGN.md section 8/{pid}"},
                "level_note": note + " Trusted: CPython, SimPy, networkx, CrossHair's z3 encodings (spot-checked by concrete replay of path witnesses), z3/cvc5, the stubs listed in the evidence file.",
                "technique": TECH})
        else:
            man['not_applicable'].append({"property_id": pid, "reason": "harness not landed yet in this round (planned: DESIGN.md section 8)"})
    json.dump(man, open('/verif/MANIFEST.json', 'w'), indent=1)
    print('claimed', sorted(claimed), 'not yet', [x['property_id'] for x in man['not_applicable']])


if __name__ == '__main__':
    main()
