#!/bin/bash
# second-wave seeded changes: files demo_<id>c.py / patch_<id>c.diff in /tmp/wt_<id>
id=$1; wt=/tmp/wt_$id
cd $wt || exit 1
t=$(/venv/bin/python -m pytest -q -p no:cacheprovider --timeout=900 --continue-on-collection-errors 2>&1 | tail -1)
PYTHONPATH=$wt /venv/bin/python -W ignore demo_${id}c.py > /tmp/demo_${id}c.mod.txt 2>&1; m=$?
git stash -q -- topsim
PYTHONPATH=$wt /venv/bin/python -W ignore demo_${id}c.py > /tmp/demo_${id}c.orig.txt 2>&1; o=$?
git stash pop -q
echo "${id}c tests: $t | demo modified rc=$m | demo unmodified rc=$o"
mkdir -p /verif/seeded/${id}c; cp patch_${id}c.diff /verif/seeded/${id}c/patch.diff; cp demo_${id}c.py /verif/seeded/${id}c/demo.py
