#!/bin/bash
# confirm a sub-agent's seeded change in its scratch worktree: same 30 tests pass, demo fails with / passes without the change
id=$1; wt=/tmp/wt_$id
cd $wt || exit 1
git diff --stat -- topsim | tail -1
t=$(/venv/bin/python -m pytest -q -p no:cacheprovider --timeout=900 --continue-on-collection-errors 2>&1 | tail -1)
PYTHONPATH=$wt /venv/bin/python -W ignore demo_$id.py > /tmp/demo_$id.mod.txt 2>&1; m=$?
git stash -q -- topsim
PYTHONPATH=$wt /venv/bin/python -W ignore demo_$id.py > /tmp/demo_$id.orig.txt 2>&1; o=$?
git stash pop -q
echo "$id tests: $t | demo modified rc=$m | demo unmodified rc=$o"
