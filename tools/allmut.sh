#!/bin/bash
# Runs seeded changes (seeded/<id>/patch.diff; all of them, or the ids given) against the quick check of their property,
# each in a fresh scratch worktree of /repo (never /repo itself); results are merged into .work/mutfinal.txt (latest run
# of an id wins) and seeded/RESULTS.md is regenerated.
cd /verif
touch .work/mutfinal.txt
ids="$@"; [ -z "$ids" ] && ids=$(ls seeded | grep '^C')
for id in $ids; do
  prop=${id:0:3}
  wt=/tmp/mw_$id
  git -C /repo worktree add -q --detach $wt HEAD || continue
  if git -C $wt apply /verif/seeded/$id/patch.diff; then
    s=$(date +%s)
    VERIF_REPO=$wt VERIF_EVIDENCE_DIR=/verif/.work/ev_mut ./check $prop quick > .work/mf_$id.out 2> .work/mf_$id.err; rc=$?
    e=$(date +%s)
    line="$id rc=$rc wall=$((e-s))s :: $(grep -h 'violation tag' .work/mf_$id.err | sort | uniq -c | head -4 | tr '\n' ';') $(grep -h HARNESS-ERROR .work/mf_$id.err | head -1 | cut -c1-200)"
  else
    line="$id patch-does-not-apply"
  fi
  grep -v "^$id " .work/mutfinal.txt > .work/mutfinal.tmp; mv .work/mutfinal.tmp .work/mutfinal.txt
  echo "$line" >> .work/mutfinal.txt; echo "$line"
  git -C /repo worktree remove --force $wt
done
/opt/veriftools/pyvenv/bin/python tools/mkresults.py
