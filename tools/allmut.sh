#!/bin/bash
# Runs every seeded change (seeded/<id>/patch.diff) against the quick check of its property, each in a fresh scratch
# worktree of /repo (never /repo itself), and writes .work/mutfinal.txt; then regenerates seeded/RESULTS.md.
cd /verif
: > .work/mutfinal.txt
for d in seeded/C*/; do
  id=$(basename $d); prop=${id:0:3}
  wt=/tmp/mw_$id
  git -C /repo worktree add -q --detach $wt HEAD || continue
  if git -C $wt apply /verif/seeded/$id/patch.diff; then
    s=$(date +%s)
    VERIF_REPO=$wt VERIF_EVIDENCE_DIR=/verif/.work/ev_mut ./check $prop quick > .work/mf_$id.out 2> .work/mf_$id.err; rc=$?
    e=$(date +%s)
    echo "$id rc=$rc wall=$((e-s))s :: $(grep -h 'violation tag' .work/mf_$id.err | sort | uniq -c | head -4 | tr '\n' ';')" >> .work/mutfinal.txt
  else
    echo "$id patch-does-not-apply" >> .work/mutfinal.txt
  fi
  git -C /repo worktree remove --force $wt
done
/opt/veriftools/pyvenv/bin/python tools/mkresults.py
