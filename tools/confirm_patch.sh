#!/bin/bash
# confirm a seeded change from its patch + demo files only, in a FRESH scratch worktree (no git stash: the stash is
# shared by all worktrees of a repository and must not be used while several agents work concurrently)
# usage: tools/confirm_patch.sh <name> <patch> <demo>      -> copies both into seeded/<name>/ when confirmed
name=$1; patch=$2; demo=$3
wt=/tmp/cp_$name
git -C /repo worktree add -q --detach $wt HEAD || exit 1
cp $demo $wt/demo_x.py
( cd $wt && PYTHONPATH=$wt /venv/bin/python -W ignore demo_x.py > /tmp/cp_$name.orig.txt 2>&1 ); o=$?
if git -C $wt apply $patch; then
  t=$(cd $wt && /venv/bin/python -m pytest -q -p no:cacheprovider --timeout=900 --continue-on-collection-errors 2>&1 | tail -1)
  ( cd $wt && PYTHONPATH=$wt /venv/bin/python -W ignore demo_x.py > /tmp/cp_$name.mod.txt 2>&1 ); m=$?
  echo "$name tests: $t | demo modified rc=$m | demo unmodified rc=$o | files: $(git -C $wt diff --stat -- topsim | tail -1)"
  if [ $m -eq 1 ] && [ $o -eq 0 ]; then mkdir -p /verif/seeded/$name; cp $patch /verif/seeded/$name/patch.diff; cp $demo /verif/seeded/$name/demo.py; fi
else
  echo "$name: patch does not apply"
fi
git -C /repo worktree remove --force $wt
