#!/bin/bash
# like allmut.sh for the ids given, but N at a time (VERIF_JOBS cores each); one result line per id in .work/pm_<id>.line,
# merged into .work/mutfinal.txt at the end (no concurrent writes to the merged file)
cd /verif
N=${PARMUT_N:-3}; export VERIF_JOBS=${VERIF_JOBS:-6}
one() {
  id=$1; prop=${id:0:3}; wt=/tmp/mw_$id
  git -C /repo worktree add -q --detach $wt HEAD || return
  if git -C $wt apply /verif/seeded/$id/patch.diff; then
    s=$(date +%s)
    VERIF_REPO=$wt VERIF_EVIDENCE_DIR=/verif/.work/ev_mut_$id ./check $prop quick > .work/mf_$id.out 2> .work/mf_$id.err; rc=$?
    e=$(date +%s)
    line="$id rc=$rc wall=$((e-s))s :: $(grep -h 'violation tag' .work/mf_$id.err | sort | uniq -c | head -4 | tr '\n' ';') $(grep -h HARNESS-ERROR .work/mf_$id.err | head -1 | cut -c1-200)"
  else line="$id patch-does-not-apply"; fi
  echo "$line" > .work/pm_$id.line; echo "$line"
  git -C /repo worktree remove --force $wt; rm -rf .work/ev_mut_$id
}
export -f one
printf '%s\n' "$@" | xargs -P $N -I{} bash -c 'one {}'
for id in "$@"; do [ -f .work/pm_$id.line ] || continue
  grep -v "^$id " .work/mutfinal.txt > .work/mutfinal.tmp; mv .work/mutfinal.tmp .work/mutfinal.txt; cat .work/pm_$id.line >> .work/mutfinal.txt; done
/opt/veriftools/pyvenv/bin/python tools/mkresults.py
