#!/bin/bash
# development aid: run the quick checks of the given properties against a scratch worktree (never /repo)
# usage: tools/trymut.sh <worktree> <prop> [<prop> ...]
wt=$1; shift
cd /verif
for p in "$@"; do
  s=$(date +%s)
  VERIF_REPO=$wt VERIF_EVIDENCE_DIR=/verif/.work/ev_mut ./check $p ${TIER:-quick} > .work/mut_$p.out 2> .work/mut_$p.err; rc=$?
  e=$(date +%s)
  echo "$p rc=$rc wall=$((e-s))s :: $(grep -h 'violation tag' .work/mut_$p.err | sort | uniq -c | head -4 | tr '\n' ';') $(grep -h HARNESS-ERROR .work/mut_$p.err | head -2 | cut -c1-300)"
done
