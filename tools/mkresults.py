"""Builds seeded/RESULTS.md from the outputs of tools/trymut.sh runs (.work/mut_round*.txt) and seeded/*/meta.json."""
import json, glob, re, os
rows = {}
for f in ['/verif/.work/mutfinal.txt']:
    for line in open(f):
        m = re.match(r'(C\d+[b-z]?) rc=(\d) wall=(\d+)s :: (.*)', line)
        if not m:
            continue
        key, rc, wall, rest = m.groups()
        pid = key[:3]
        tags = re.findall(r'violation tag: ([^;]+);', rest)
        rows[key] = (pid, int(rc), int(wall), sorted(set(t.strip() for t in tags)))
out = ['# Seeded changes vs. the quick checks', '',
       'Each change was produced by an independent sub-agent that saw only the property text and its own scratch worktree (later waves:',
       'also one-line descriptions of the changes already tried for that property), was re-confirmed from its patch and demonstration alone',
       'in a fresh worktree (`tools/confirm_patch.sh`: same 30 tests pass; the demonstration exits 1 with and 0 without the change), and was',
       'then given to the quick check of its property in another fresh worktree (`tools/allmut.sh` / `tools/parmut.sh`: `VERIF_REPO=<worktree> ./check <property> quick`;',
       '/repo itself is never modified).  rc=1 means a reproduced VIOLATION; rc=0 means the check of that property stayed silent',
       '(C04g, C13g: the change makes the run hang, which the C05 check reports for both and the C07 check for C04g - DESIGN.md section 13, eighth wave;',
       'C19i: conservation is broken while Buffer.is_empty() stays truthful in C19 terms - the C18 and C07 checks report it, tenth wave).', '',
       '| change | property | what it is | needs | check result | violation tags reported |', '|---|---|---|---|---|---|']
for key in sorted(rows, key=lambda k: (k[:3], k[3:])):
    pid, rc, wall, tags = rows[key]
    meta = json.load(open(f'/verif/seeded/{key}/meta.json')) if os.path.exists(f'/verif/seeded/{key}/meta.json') else {}
    out.append(f"| {key} | {pid} | {meta.get('change', '')} | {meta.get('needs_to_manifest', '')} | rc={rc} ({wall}s) | {'; '.join(tags) or '-'} |")
out += ['', 'History: DESIGN.md section 13 lists which changes the first versions of the checks missed and what was added for each.',
        'The table shows the latest run of each change against the current checks.']
open('/verif/seeded/RESULTS.md', 'w').write('\n'.join(out) + '\n')
print(len(rows), 'rows')
