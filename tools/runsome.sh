#!/bin/bash
# development aid: run the given tier for the listed properties sequentially: tools/runsome.sh <tier> <ids...>
tier=$1; shift
cd /verif
for p in "$@"; do
  s=$(date +%s)
  ./check $p $tier > .work/out_$p.txt 2> .work/err_$p.txt; rc=$?
  e=$(date +%s)
  echo "$p rc=$rc wall=$((e-s))s $(grep -c '^VIOLATION' .work/out_$p.txt) violations; $(grep -c '^KNOWN-FINDING' .work/out_$p.txt) known; $(tail -1 .work/err_$p.txt | cut -c1-160)"
done
