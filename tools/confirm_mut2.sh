#!/bin/bash
# second-wave seeded changes: files demo_<id>b.py / patch_<id>b.diff in /tmp/wt_<id>
id=$1; wt=/tmp/wt_$id
cd $wt || exit 1
t=$(/venv/bin/python -m pytest -q -p no:cacheprovider --timeout=900 --continue-on-collection-errors 2>&1 | tail -1)
PYTHONPATH=$wt /venv/bin/python -W ignore demo_${id}b.py > /tmp/demo_${id}b.mod.txt 2>&1; m=$?
git stash -q -- topsim
PYTHONPATH=$wt /venv/bin/python -W ignore demo_${id}b.py > /tmp/demo_${id}b.orig.txt 2>&1; o=$?
git stash pop -q
echo "${id}b tests: $t | demo modified rc=$m | demo unmodified rc=$o"
mkdir -p /verif/seeded/${id}b; cp patch_${id}b.diff /verif/seeded/${id}b/patch.diff; cp demo_${id}b.py /verif/seeded/${id}b/demo.py
