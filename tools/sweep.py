"""Development aid (NOT part of any check's verdict): concrete random sweep of SIMH scenarios to screen oracles."""
import sys, random, collections, json
sys.path[:0] = ['/repo', '/verif']
from vk import simh

def rand_scenario(rnd):
    no = rnd.choice((1, 2, 2, 3)); nm = rnd.choice((1, 2, 3, 4))
    nt = rnd.randint(1, 3)
    edges = [[i, j, rnd.choice((0, 5, 10, 15))] for i in range(nt) for j in range(i + 1, nt) if rnd.random() < 0.6]
    algk = rnd.choice(('batch1', 'batch2', 'queue'))
    parts = 2 if algk == 'batch2' else 1
    ing = [rnd.randint(1, 2) for _ in range(no)]
    sc = dict(machines=[rnd.choice((10, 20)) for _ in range(nm)], bw=5,
              obs=[dict(start=rnd.randint(0, 4), dur=rnd.randint(1, 4), arrays=rnd.randint(1, 2), ingest=ing[i], rate=rnd.choice((1, 5, 20, 40))) for i in range(no)],
              max_ingest=max(ing) + rnd.randint(0, 1), arrays=rnd.choice((2, 4)), hot=rnd.choice((100, 200, 400)), cold=rnd.choice((100, 200, 400)),
              hot_rate=rnd.choice((40, 100)), cold_rate=rnd.choice((20, 60, 100)),
              graphs=[dict(n=nt, edges=edges, durs=[rnd.choice((0, 1, 2, 3)) for _ in range(nt)])],
              alg=dict(kind='queue') if algk == 'queue' else dict(kind='batch', parts=parts, min=1),
              delays=[rnd.choice((0, 0, 1, 2)) for _ in range(4)] if rnd.random() < 0.5 else [])
    return sc

def feasible(sc):
    nm = len(sc['machines'])
    for o in sc['obs']:
        size = o['rate'] * o['dur']
        if o['arrays'] > sc['arrays'] or o['ingest'] > sc['max_ingest'] or o['ingest'] > nm: return False
        if size >= sc['hot'] or size > sc['cold'] or o['rate'] > sc['hot_rate']: return False
    if sc['alg']['kind'] == 'batch' and nm // sc['alg']['parts'] < sc['alg']['min']: return False
    return True

if __name__ == '__main__':
    N = int(sys.argv[1]) if len(sys.argv) > 1 else 2000
    rnd = random.Random(int(sys.argv[2]) if len(sys.argv) > 2 else 1)
    cnt = collections.Counter(); ex = {}; n = 0
    while n < N:
        sc = rand_scenario(rnd)
        if not feasible(sc): continue
        n += 1
        res = simh.run(sc)
        for t in res.tags:
            cnt[t] += 1; ex.setdefault(t, sc)
        if not res.tags: cnt['<none>'] += 1
    for k, v in sorted(cnt.items()): print(v, k, '' if k == '<none>' else json.dumps(ex[k]))
