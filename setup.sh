#!/bin/bash
# Build the checker environment offline: an overlay venv on top of /venv (which has
# topsim's dependencies) with crosshair-tool + z3-solver from the local wheelhouse.
# Idempotent; serialised with flock because every check calls it.
set -e
cd "$(dirname "$0")"
exec 9>.setup.lock
flock 9
VENV=/verif/.venv
STAMP=$VENV/.ok
if [ -f "$STAMP" ] && "$VENV/bin/python" -c "import crosshair, z3, simpy, networkx" 2>/dev/null; then
    exit 0
fi
rm -rf "$VENV"
/venv/bin/python -m venv "$VENV"
SP=$("$VENV/bin/python" -c "import sysconfig; print(sysconfig.get_paths()['purelib'])")
echo "import site; site.addsitedir('/venv/lib/python3.12/site-packages')" > "$SP/_base_venv.pth"
PIP_NO_INDEX=1 "$VENV/bin/pip" install -q --no-index --find-links /opt/veriftools/wheels crosshair-tool >/dev/null
"$VENV/bin/python" -c "import crosshair, z3, simpy, networkx, pandas; print('verif venv ready: crosshair', crosshair.__version__, 'z3', z3.get_version_string())"
mkdir -p /verif/.work /verif/evidence /verif/replays
touch "$STAMP"
