"""SIMH-based harnesses (DESIGN 5.3): whole bounded simulations of the real actors; each contract function asserts
the violation tags of the property named in PIN['props'] (prefix list).  Time-like inputs (starts, durations, task
lengths) have small ranges and are enumerated by branching at the harness entry; size-like and choice-like inputs
stay symbolic in the runs that are about them."""
from vk import wit, simh
from vk.wit import concretize as cz

PIN = {}
FUNCTIONS = simh.FUNCTIONS
META = {
    'bounds': {'SIMH.machines': '2-4 (speeds 10/20, or 10,20,30,40)', 'SIMH.observations': '1-3 (4 in the array-contention profile)', 'SIMH.start': '0..3 (0..7 for the late third observation of the singles profile)',
               'SIMH.duration': '1..2 (quick) / 1..3 (thorough); 1.5 and 2.5 in the fixed-horizon C12 shards (a duration that is not a whole number of timesteps)',
               'SIMH.workflow': '1-3 tasks; shapes chain, fork, join, free, triangle and three relabelled variants whose node labels are not in topological order; task duration 0..2 injected as int (or compute demand over machine speed), edge volumes 0..15',
               'SIMH.algorithms': ['BatchProcessing(partitions 1-3, min 1; one degenerate per-observation split with min 0)', 'QueueProcessing', 'Dynamic+static stub', 'Greedy+static stub',
                                   'Adversary (any machine index, optionally ignoring precedence)', 'ReserveOnlyBatch (reserves, leaves release to the Scheduler)', 'DupFirst (proposes the first free machine for every ready task: duplicates the Scheduler defers)'],
               'SIMH.inputs': 'time-like and choice-like inputs are case-split by the solver and each case runs natively; data rates / capacities unbounded symbolic in the sizes harness',
               'SIMH.horizon': 'serial bound of C05 (<= ~80 steps)'},
    'outside_bounds': ['clusters > 4 machines, > 3 observations, DAGs > 3 tasks in whole-simulation runs', 'SimPy tie-breaks no input can produce (E11)'],
    'stubs': simh.STUBS, 'assumptions': ['feasible configurations (each observation alone fits telescope, ingest limit, cluster, both buffers)'],
}

ALGS = {'dupfirst': dict(kind='dupfirst'), 'batch1': dict(kind='batch', parts=1, min=1), 'batch2': dict(kind='batch', parts=2, min=1), 'queue': dict(kind='queue'),
        'batch3': dict(kind='batch', parts=3, min=1),
        # legal but unusual: no global minimum, per-observation (min, max) splits, many partitions
        'batchsplit': dict(kind='batch', parts=2, min=1, split={'o1': (3, 3), 'o2': (1, 3), 'o3': (1, 2)}),
        'batch0split': dict(kind='batch', parts=16, min=0, split={'o1': (2, 2), 'o2': (1, 1), 'o3': (1, 2)}), 'reserve1': dict(kind='reserve_only', parts=1, min=1), 'reserve2': dict(kind='reserve_only', parts=2, min=1)}


def base_scenario(nobs=2):
    return dict(machines=[10, 10, 20], bw=5, max_ingest=2, arrays=4, hot=1000, cold=1000, hot_rate=100, cold_rate=100,
                obs=[dict(start=0, dur=1, arrays=1, ingest=1, rate=5) for _ in range(nobs)],
                graphs=[dict(n=2, edges=[[0, 1, 5]], durs=[1, 1])], alg=dict(kind='queue'), delays=[])


def my_tag(res):
    return simh.first_tag(res, PIN.get('props', ['C']))


# ---- timing profile: two observations, 2-task workflow -------------------------------------------------------------
def timing_scenario(s2, d1, d2, da, db):
    sc = base_scenario(2)
    sc['machines'] = PIN.get('machines', [10, 10, 20])
    sc['alg'] = ALGS.get(PIN.get('alg', 'queue'), dict(kind='queue'))
    g = PIN.get('ingest', [1, 1])
    sc['max_ingest'] = PIN.get('max_ingest', 2)
    sc['obs'][0].update(start=PIN.get('s1', 0), dur=d1, ingest=g[0], arrays=PIN.get('arrays1', 1))
    sc['obs'][1].update(start=s2, dur=d2, ingest=g[1], arrays=PIN.get('arrays2', 1))
    sc['graphs'] = [dict(n=2, edges=[[0, 1, PIN.get('vol', 5)]] if PIN.get('edge', True) else [], durs=[da, db])]
    sc['delays'] = PIN.get('delays', [])
    return sc


def timing_tag(s2, d1, d2, da, db):
    wit.begin()
    s2, d1, d2, da, db = cz(s2, 0, 2), cz(d1, 1, 2), cz(d2, 1, 2), cz(da, 0, 2), cz(db, 0, 2)
    tag, done = wit.native(_timing_run, s2, d1, d2, da, db)
    if done:
        wit.reach('simulation-completed')
    return tag


def _timing_run(s2, d1, d2, da, db):
    res = simh.run(timing_scenario(s2, d1, d2, da, db))
    return my_tag(res), res.outcome == 'finished'


def timing(s2: int, d1: int, d2: int, da: int, db: int) -> bool:
    """
    pre: 0 <= s2 <= 2 and 1 <= d1 <= 2 and 1 <= d2 <= 2 and 0 <= da <= 2 and 0 <= db <= 2
    post: _
    """
    t = timing_tag(s2, d1, d2, da, db)
    wit.note(t, s2=s2, d1=d1, d2=d2, da=da, db=db)
    return wit.verdict(t)


# ---- generic grid harness: up to 8 small-range integer inputs, meaning given by PIN['profile'] -----------------------
def prof_two(v):
    """(s2, d1, d2, da, db, g2, mi, vol): two observations, 2-task workflow"""
    s2, d1, d2, da, db, g2, mi, vol = v
    sc = base_scenario(2)
    sc['machines'] = PIN.get('machines', [10, 10, 20])
    sc['alg'] = ALGS.get(PIN.get('alg', 'queue'), dict(kind='queue'))
    sc['max_ingest'] = mi
    sc['obs'][0].update(start=PIN.get('s1', 0), dur=d1, ingest=PIN.get('g1', 1), arrays=PIN.get('arrays1', 1))
    sc['obs'][1].update(start=s2, dur=d2, ingest=g2, arrays=PIN.get('arrays2', 1))
    if PIN.get('dur_frac'):
        # durations that are not a whole number of timesteps (a non-second unit): the ingest streams for ceil(duration) steps
        for o in sc['obs']:
            o['dur'] = o['dur'] + PIN['dur_frac']
    sc['arrays'] = PIN.get('arrays', 4)
    sc['graphs'] = [dict(n=2, edges=[[0, 1, vol]] if PIN.get('edge', True) else [], durs=[da, db])]
    sc['delays'] = PIN.get('delays', [])
    return sc


def prof_three(v):
    """(s2, s3, d1, d2, d3, da, db, dc): three observations, 3-task workflow of shape PIN['shape']"""
    s2, s3, d1, d2, d3, da, db, dc = v
    sc = base_scenario(3)
    sc['machines'] = PIN.get('machines', [10, 10, 20])
    sc['alg'] = ALGS.get(PIN.get('alg', 'queue'), dict(kind='queue'))
    sc['max_ingest'] = PIN.get('max_ingest', 2)
    g = PIN.get('ingest', [1, 1, 1])
    for k, (st, du) in enumerate(((PIN.get('s1', 0), d1), (s2, d2), (s3, d3))):
        sc['obs'][k].update(start=st, dur=du, ingest=g[k], arrays=PIN.get('arrays_each', 1))
    sc['arrays'] = PIN.get('arrays', 4)
    shape = PIN.get('shape', 'chain')
    edges = {'chain': [[0, 1, 5], [1, 2, 10]], 'fork': [[0, 1, 5], [0, 2, 0]], 'join': [[0, 2, 5], [1, 2, 10]], 'free': [],
             'tri': [[0, 1, 5], [0, 2, 10], [1, 2, 5]], 'fork2': [[0, 1, 5], [0, 2, 15]],
             # node labels that are NOT in topological order (task ids embed the label)
             'relabel': [[0, 2, 5], [2, 1, 10], [0, 1, 5]], 'revchain': [[2, 1, 5], [1, 0, 10]], 'revjoin': [[2, 0, 5], [1, 0, 10]]}[shape]
    sc['graphs'] = [dict(n=3, edges=edges, durs=[da, db, dc])]
    sc['delays'] = PIN.get('delays', [])
    return sc


def prof_delay(v):
    """(s2, d1, d2, da, db, x0, x1, x2): two observations with an injected per-task delay vector (E10)"""
    s2, d1, d2, da, db, x0, x1, x2 = v
    sc = prof_two((s2, d1, d2, da, db, PIN.get('g2', 1), PIN.get('max_ingest', 2), PIN.get('vol', 5)))
    sc['delays'] = [x0, x1, x2]
    sc['obs'][1]['start'] += PIN.get('s2_offset', 0)      # a second observation that starts after the first workflow is over
    return sc


def prof_adv(v):
    """(s2, da, db, c0, c1, c2, c3, c4): adversarial scheduling algorithm proposing machines[c_i] (-1 = decline) (E9)"""
    s2, da, db, c0, c1, c2, c3, c4 = v
    sc = prof_two((s2, PIN.get('d1', 1), PIN.get('d2', 2), da, db, PIN.get('g2', 1), PIN.get('max_ingest', 2), PIN.get('vol', 5)))
    sc['alg'] = dict(kind='adversary', choices=[c0, c1, c2, c3, c4], honest=PIN.get('honest', True))
    sc['cap'] = 60
    return sc


def prof_static(v):
    """(s2, da, db, a0, a1, b0, b1, eo): plan-following algorithms on a static plan stub: task i of observation k planned on machine a_i / b_i (E6)"""
    s2, da, db, a0, a1, b0, b1, eo = v
    sc = prof_two((s2, PIN.get('d1', 1), PIN.get('d2', 2), da, db, PIN.get('g2', 1), PIN.get('max_ingest', 2), PIN.get('vol', 5)))
    sc['alg'] = dict(kind=PIN.get('alg', 'dynamic'))
    sc['graphs'] = [dict(n=2, edges=[[0, 1, PIN.get('vol', 5)]] if PIN.get('edge', True) else [], durs=[da, db])]
    sc['assign'] = [[a0, a1], [b0, b1]]
    sc['ests'] = [[0, 1], [0, 1]] if eo == 0 else ([[0, 0], [0, 0]] if eo == 1 else [[1, 0], [1, 0]])
    if PIN.get('names'):
        sc['names'] = PIN['names']
    sc['cap'] = 80
    return sc


def prof_singles(v):
    """(s2, s3, da, db, dc, g3, d3, mi): three observations, each with its own one-task workflow of length da / db / dc"""
    s2, s3, da, db, dc, g3, d3, mi = v
    sc = base_scenario(3)
    sc['machines'] = PIN.get('machines', [10, 10, 20])
    sc['alg'] = ALGS.get(PIN.get('alg', 'batch3'), dict(kind='queue'))
    sc['max_ingest'] = mi
    sc['obs'][0].update(start=0, dur=1, ingest=1)
    sc['obs'][1].update(start=s2, dur=1, ingest=1)
    sc['obs'][2].update(start=s3, dur=d3, ingest=g3)
    sc['graphs'] = [dict(n=1, edges=[], durs=[da]), dict(n=1, edges=[], durs=[db]), dict(n=1, edges=[], durs=[dc])]
    sc['delays'] = PIN.get('delays', [])
    return sc


def prof_one(v):
    """(d1, da, db, dc, sh, nm, vol, g1): ONE observation; 3-task workflow of shape sh on nm machines - the run ends with this workflow"""
    d1, da, db, dc, sh, nm, vol, g1 = v
    sc = base_scenario(1)
    sc['machines'] = [10, 20, 10, 10][:nm]
    sc['alg'] = ALGS.get(PIN.get('alg', 'batch1'), dict(kind='queue'))
    sc['max_ingest'] = PIN.get('max_ingest', 2)
    sc['obs'][0].update(start=PIN.get('s1', 0), dur=d1, ingest=g1)
    edges = [[[0, 1, vol], [0, 2, 3 * vol]], [[0, 2, vol], [1, 2, 2 * vol]], [[0, 1, vol], [1, 2, vol]], []][sh]
    sc['graphs'] = [dict(n=3, edges=edges, durs=[da, db, dc])]
    sc['delays'] = PIN.get('delays', [])
    return sc


def prof_four(v):
    """(dX, dA, dB, sC, aA, aB, aC, sB): four observations competing for the ARRAYS of a 10-array telescope (machines and
    buffers plentiful): X from 0 needs 6; A and B fall due at 1 / sB; C at sC; one-task workflows"""
    dX, dA, dB, sC, aA, aB, aC, sB = v
    sc = base_scenario(4)
    sc['machines'] = [10, 20, 10, 10, 20, 10]
    sc['alg'] = ALGS.get(PIN.get('alg', 'queue'), dict(kind='queue'))
    sc['max_ingest'] = 4
    sc['arrays'] = PIN.get('arrays', 10)
    for k, (st, du, ar) in enumerate(((0, dX, 6), (1, dA, aA), (sB, dB, aB), (sC, 3, aC))):
        sc['obs'][k].update(start=st, dur=du, ingest=1, arrays=ar, rate=1)
    sc['graphs'] = [dict(n=1, edges=[], durs=[1])]
    return sc


PROFILES = {'four': prof_four, 'one': prof_one, 'singles': prof_singles, 'two': prof_two, 'three': prof_three, 'delay': prof_delay, 'adv': prof_adv, 'static': prof_static}


def _grid_run(profile, v, props):
    sc = PROFILES[profile](v)
    if not simh.feasible(sc):
        return None, False                      # outside every property's pre-condition: skipped
    if PIN.get('horizon'):
        # fixed-horizon run through the public API (start(runtime=a) [, resume(until=b)]), beyond completion
        res = simh.run_horizon(sc, PIN['horizon'])
    else:
        res = simh.run(sc)
    return simh.first_tag(res, props), res.outcome == 'finished'


def in_ranges(*xs):
    for x, (lo, hi) in zip(xs, PIN['ranges']):
        if not (lo <= x <= hi):
            return False
    return True


def grid_tag(x0, x1, x2, x3, x4, x5, x6, x7):
    wit.begin()
    v = [cz(x, lo, hi) for x, (lo, hi) in zip((x0, x1, x2, x3, x4, x5, x6, x7), PIN['ranges'])]
    tag, done = wit.native(_grid_run, PIN['profile'], v, PIN.get('props', ['C']))
    if done:
        wit.reach('simulation-completed')
    return tag


def grid(x0: int, x1: int, x2: int, x3: int, x4: int, x5: int, x6: int, x7: int) -> bool:
    """
    pre: in_ranges(x0, x1, x2, x3, x4, x5, x6, x7)
    post: _
    """
    t = grid_tag(x0, x1, x2, x3, x4, x5, x6, x7)
    wit.note(t, x0=x0, x1=x1, x2=x2, x3=x3, x4=x4, x5=x5, x6=x6, x7=x7)
    return wit.verdict(t)


# ---- size-like inputs symbolic and unbounded (traced end to end): C05, C07, C08 ------------------------------------
def sizes_scenario(r1, r2, hot, cold, rh, rc):
    s2, d1, d2, da, db = PIN.get('timing', [1, 2, 2, 1, 1])
    sc = prof_two((s2, d1, d2, da, db, PIN.get('g2', 1), PIN.get('max_ingest', 2), 5))
    sc['obs'][0]['rate'], sc['obs'][1]['rate'] = r1, r2
    sc.update(hot=hot, cold=cold, hot_rate=rh, cold_rate=rc)
    # <= 3 transfer steps per tier move (pre-condition), so the serial bound is a concrete number of steps
    cap = 0
    for o in sc['obs']:
        cap = max(cap, o['start'])
    cap += sum(o['dur'] + 3 for o in sc['obs']) + len(sc['obs']) * (2 * 3 + 2 * 3) + sum(max(1, d) + 3 for d in (da, db)) * 2 + 2 * (1 + 3)
    sc['cap'] = cap
    return sc


def feasible_sizes(r1, r2, hot, cold, rh, rc):
    s2, d1, d2, da, db = PIN.get('timing', [1, 2, 2, 1, 1])
    for r, d in ((r1, d1), (r2, d2)):
        size = r * d
        if not (1 <= r <= rh and size < hot and size <= cold and size <= 3 * rh and size <= 3 * rc):
            return False
    return rc >= 1


def sizes_tag(r1, r2, hot, cold, rh, rc):
    wit.begin()
    res = simh.run(sizes_scenario(r1, r2, hot, cold, rh, rc))
    if res.outcome == 'finished':
        wit.reach('simulation-completed')
    return my_tag(res)


def sizes(r1: int, r2: int, hot: int, cold: int, rh: int, rc: int) -> bool:
    """
    pre: feasible_sizes(r1, r2, hot, cold, rh, rc)
    post: _
    """
    t = sizes_tag(r1, r2, hot, cold, rh, rc)
    wit.note(t, r1=r1, r2=r2, hot=hot, cold=cold, rh=rh, rc=rc)
    return wit.verdict(t)


def warmup():
    PIN.setdefault('props', ['C'])
    sc = base_scenario(2)
    sc['obs'][1].update(start=1, dur=2)
    simh.run(sc)


def G(profile, ranges, props, T=200, **pin):
    """shard spec for the grid harness"""
    pin = dict(pin)
    pin.update(profile=profile, ranges=[list(r) for r in ranges], props=props)
    return {'module': 'harness.h_sim', 'fn': 'grid', 'pin': pin, 'cond_timeout': T, 'path_timeout': 30}


R_TWO = [(0, 2), (1, 2), (1, 2), (0, 2), (0, 2), (1, 2), (1, 2), (5, 5)]
R_FOUR = [(3, 5), (5, 6), (2, 4), (4, 6), (5, 6), (3, 4), (5, 6), (1, 2)]
R_ONE = [(1, 2), (0, 2), (0, 2), (0, 2), (0, 3), (2, 3), (4, 6), (1, 2)]
R_THREE = [(0, 2), (0, 3), (1, 2), (1, 2), (1, 2), (0, 2), (1, 1), (0, 2)]


def shards(tier, prop):
    return []
