"""C09 - batch reservations are exclusive, bounded and released.
H1 real BatchProcessing._provision_resources/_max_resource_provision on a symbolic cluster state (prelude).
H2 reservation life cycle: provision through BatchProcessing.run, allocate through the real scheduler round, foreign
   workflow / ingest cannot take a reserved machine, reservation returns when the plan is empty."""
import simpy, networkx as nx
from vk import wit
from vk.kit import *
from vk.wit import pick, concretize as cz
from topsim.core.scheduler import Scheduler
from topsim.core.planner import WorkflowPlan, WorkflowStatus
from topsim.user.schedule.batch_allocation import BatchProcessing

PIN = {}
FUNCTIONS = [BatchProcessing._provision_resources, BatchProcessing._max_resource_provision, BatchProcessing.run, Cluster.provision_batch_resources,
             Cluster.release_batch_resources, Cluster._add_idle_resource, Cluster._set_machine_available, Cluster._set_machine_occupied,
             Cluster.allocate_task_to_cluster, Scheduler._process_current_schedule]
META = {
    'bounds': {'C09.machines': '1..4', 'C09.pools': 'every machine available / ingest / running / reserved for another observation (prelude)',
               'C09.partitions': '1..3', 'C09.minimum': '1..3', 'C09.split': 'none or (lo, hi) with 1 <= lo <= hi <= 5', 'C09.lifecycle': '3 machines, 2-task workflow'},
    'outside_bounds': ['min_resources_per_workflow = 0 (outside the documented domain)', 'more than two reservations'],
    'stubs': ['FakeCfg instead of JSON config'], 'assumptions': [],
}


class Plan:
    def __init__(self, id):
        self.id = id


def prov_tag(n, pools, parts, mn, split, lo, hi):
    wit.begin()
    # configuration values are case-split (int(len(cluster) / partitions) is float arithmetic); the pool vector stays symbolic
    parts, mn, lo, hi = cz(parts, 1, 3), cz(mn, 1, 3), cz(lo, 1, 5), cz(hi, 1, 5)
    # pool code 3 here means "reserved for the OTHER observation B"
    env, c = cluster_in_state([4 if p == 3 else p for p in pools[:n]], n=n)
    r = c._resources
    before_B = [m.id for m in r['idle'].get('B', [])]
    busy = [m.id for m in r['ingest'] + r['occupied']]
    nres_before = len(r['idle'])
    a = BatchProcessing(max_resource_partitions=parts, min_resources_per_workflow=mn,
                        resource_split=({'A': (lo, hi), 'B': (lo, hi)} if split else None))
    snap = snapshot(c)
    try:
        ok = a._provision_resources(c, Plan('A'))
    except RuntimeError:
        return None if (split and lo > n) else 'C09/provisioning-raises'
    except Exception as ex:
        return f'C09/provisioning-raises/{type(ex).__name__}'
    mine = [m.id for m in r['idle'].get('A', [])]
    if not ok:
        if mine or snapshot(c) != snap:
            return 'C09/refused-but-machines-reserved'
        return None
    wit.reach('reservation-made')
    if len(r['idle']) > parts:
        return 'C09/more-reservations-than-partitions'
    if len(mine) < mn:
        return 'C09/reservation-below-minimum'
    if split:
        if not (lo <= len(mine) <= hi):
            return 'C09/reservation-outside-per-observation-split'
    elif len(mine) > n // parts:
        return 'C09/reservation-above-share-of-cluster'
    for mid in mine:
        if mid in busy:
            return 'C09/reserved-a-busy-machine'
        if mid in before_B:
            return 'C09/took-machine-from-another-reservation'
    if [m.id for m in r['idle'].get('B', [])] != before_B:
        return 'C09/other-reservation-changed'
    if sorted(pool_ids(c)) != sorted(m.id for m in c.machines):
        return 'C09/provisioning-lost-or-duplicated-a-machine'
    return None


def prov_ok_tag(p0, p1, p2, p3, parts, mn, split, lo, hi):
    return prov_tag(PIN['n'], [p0, p1, p2, p3], parts, mn, split, lo, hi)


def prov_ok(p0: int, p1: int, p2: int, p3: int, parts: int, mn: int, split: bool, lo: int, hi: int) -> bool:
    """
    pre: 0 <= p0 <= 3 and 0 <= p1 <= 3 and 0 <= p2 <= 3 and 0 <= p3 <= 3
    pre: 1 <= parts <= 3 and 1 <= mn <= 3 and 1 <= lo <= hi <= 5
    pre: unused_pinned(p0, p1, p2, p3, split, lo, hi)
    post: _
    """
    t = prov_ok_tag(p0, p1, p2, p3, parts, mn, split, lo, hi)
    wit.note(t, p0=p0, p1=p1, p2=p2, p3=p3, parts=parts, mn=mn, split=split, lo=lo, hi=hi)
    return wit.verdict(t)


def unused_pinned(p0, p1, p2, p3, split, lo, hi):
    n = PIN['n']
    ps = [p0, p1, p2, p3]
    for i in range(4):
        if i >= n and ps[i] != 0:
            return False
    if not split and (lo != 1 or hi != 1):
        return False
    return split == PIN.get('split', split)


def life_tag(p1, p2, edge, da, db):
    return _life(PIN['p0'], p1, p2, edge, PIN['other'], da, db)


def _life(p0, p1, p2, edge, other, da, db):
    """life cycle of a reservation for workflow A on 3 machines while B / ingest compete"""
    wit.begin()
    da, db = cz(da, 0, 2), cz(db, 0, 2)
    env, c = cluster_in_state([4 if p == 3 else p for p in (p0, p1, p2)], busy_dur=2)
    sch = Scheduler(env, None, c, None)
    t0, t1 = mk_task('A_0_0', da), mk_task('A_0_1', db, preds=(['A_0_0'] if edge else []), io=({'A_0_0': 0} if edge else {}))
    g = nx.DiGraph()
    g.add_node(t0), g.add_node(t1)
    if edge:
        g.add_edge(t0, t1, transfer_data=0)
    plan = WorkflowPlan('A', 0, 10, [t0, t1], ['A_0_0', 'A_0_1'], WorkflowStatus.SCHEDULED, 1, g)
    plan.ast = 0
    alg = BatchProcessing(max_resource_partitions=2, min_resources_per_workflow=1)
    schedule, pairs, pool = {}, {}, set()
    ran_on = {}
    for step in range(14):
        plan.tasks = sch._update_current_plan(plan)
        schedule, status, pool = alg.run(c, env.now, plan, schedule, pool)
        mine = c.get_idle_resources('A')
        for t, m in schedule.items():
            if m not in mine:
                return 'C09/proposal-outside-own-reservation'
        if not schedule and status is WorkflowStatus.FINISHED:
            break
        if schedule:
            before = {t: m for t, m in schedule.items()}
            schedule, pairs = sch._process_current_schedule(schedule, pairs, plan.id)
            for t, m in before.items():
                if t not in schedule:
                    ran_on[t.id] = m.id
        if c.is_observation_provisioned('A'):
            wit.reach('reserved')
            resA = [m.id for m in c.get_idle_resources('A')]
            # a foreign workflow or ingest must not get a machine reserved for A
            if other == 1 and resA:
                tb = mk_task(f'B_0_{step}', 1)
                try:
                    env.process(c.allocate_task_to_cluster(tb, c.get_machine_from_id(resA[0]), None, 'B'))
                    drain(env)
                    return 'C09/foreign-workflow-ran-on-reserved-machine'
                except RuntimeError:
                    pass
            if other == 2 and c.check_ingest_capacity(1, 3):
                env.process(c.provision_ingest_resources(1, Obs(f'ing{step}', 1)))
                drain(env)
                if any(m.id in resA for m in c._resources['ingest']):
                    return 'C09/ingest-took-reserved-machine'
        env.run(env.now + 1)
    else:
        return 'C09/workflow-never-finishes-on-its-reservation'
    if c.is_observation_provisioned('A') or c.get_idle_resources('A'):
        return 'C09/reservation-not-released-after-last-task'
    # the bound on the number of reservations must survive a finished workflow: let further workflows ask for machines
    c.release_batch_resources('A')           # the Scheduler releases once more when it drops the finished observation
    env.run(env.now + 3)
    for name in ('C', 'D', 'E'):
        alg._provision_resources(c, Plan(name))
        if len(c._resources['idle']) > 2:
            return 'C09/more-reservations-than-partitions-after-a-release'
    if len(c._resources['available']) + len(c._resources['ingest']) + len(c._resources['occupied']) + sum(len(v) for v in c._resources['idle'].values()) != 3:
        return 'C09/release-lost-or-duplicated-a-machine'
    return None


def life(p1: int, p2: int, edge: bool, da: int, db: int) -> bool:
    """
    pre: 0 <= p1 <= 3 and 0 <= p2 <= 3 and 0 <= da <= 2 and 0 <= db <= 2
    pre: some_free(p1, p2)
    post: _
    """
    t = life_tag(p1, p2, edge, da, db)
    wit.note(t, p1=p1, p2=p2, edge=edge, da=da, db=db)
    return wit.verdict(t)


def some_free(p1, p2):
    return PIN['p0'] == 0 or p1 == 0 or p2 == 0


def warmup():
    PIN.setdefault('n', 3)
    prov_tag(3, [0, 1, 3, 0], 2, 1, False, 1, 1)
    _life(0, 0, 3, True, 1, 1, 1)


def shards(tier, prop):
    T = 200 if tier == 'quick' else 1200
    out = []
    for n in (1, 2, 3, 4):
        for split in (False, True):
            if tier == 'quick' and (n == 4 or (n == 3 and split)):
                continue            # quick: 4 machines, and 3 machines with a per-observation split, are thorough-only
            out.append({'fn': 'prov_ok', 'pin': {'n': n, 'split': split}, 'cond_timeout': T, 'path_timeout': 30})
    for p0 in range(4):
        for other in range(3):
            out.append({'fn': 'life', 'pin': {'p0': p0, 'other': other}, 'cond_timeout': T, 'path_timeout': 30})
    out.append({'fn': 'prov_ok', 'pin': {'n': 2, 'split': False}, 'cond_timeout': 40, 'twin': True})
    out.append({'fn': 'life', 'pin': {'p0': 0, 'other': 1}, 'cond_timeout': 40, 'twin': True})
    return out
