"""C08-H1 - one timestep of the real Telescope/Scheduler/Cluster/Buffer from a symbolic load state (DESIGN 8/C08).
Pools by prelude, arrays in use, buffer free space (unbounded), provision counter, two WAITING observations with
symbolic planned start, array demand, ingest demand and data volume (unbounded rate)."""
import types
import simpy
from vk import wit, simh
from vk.kit import *
from topsim.core.buffer import Buffer, HotBuffer, ColdBuffer
from topsim.core.scheduler import Scheduler
from topsim.core.instrument import Observation, RunStatus
from topsim.user.telescope import Telescope

PIN = {}
FUNCTIONS = [Telescope.run, Telescope.begin_observation, Observation.is_ready, Scheduler.check_ingest_capacity, Cluster.check_ingest_capacity,
             Buffer.check_buffer_capacity, HotBuffer.has_capacity_for, ColdBuffer.has_capacity_for, Scheduler.allocate_ingest,
             Cluster.provision_ingest_resources]
META = {
    'bounds': {'C08.step.machines': 3, 'C08.step.pools': 'each machine available / on ingest / running a task / reserved-idle for a batch workflow (4^3 by prelude)',
               'C08.step.observations': 2, 'C08.step.est': '1..2 at now=1 (two steps run)', 'C08.step.array_demand': '1..2 of total 1..3, 0..1 in use',
               'C08.step.ingest_demand': '1..2, limit 1..3', 'C08.step.data_rate/buffer free/capacity': 'unbounded ints', 'C08.step.duration': '(1, 2)', 'C08.step.quick_focus': 'arrays (demands/total/in-use symbolic) and machines (ingest demands/limit/pools symbolic) in separate shards; thorough: jointly'},
    'outside_bounds': ['more than two observations falling due in one step', 'more than 3 machines'],
    'stubs': ['FakeCfg instead of JSON config', 'planner not involved (no workflow starts within the step)'],
    'assumptions': ["feasibility pre-conditions of the statement: ingest demand <= limit and <= cluster size, volume < hot capacity and <= cold capacity, rate <= max ingest rate, array demand <= total"],
}
N = 3


def step_tag(p0, p1, p2, u0, ta, mi, e1, e2, a1, a2, g1, g2, r1, r2, d1, d2, hcap, hused, ccap, cused, rmax):
    wit.begin()
    env, c = cluster_in_state([p0, p1, p2], busy_dur=4)
    env.run(until=1)
    hot, cold = HotBuffer(hcap, rmax), ColdBuffer(ccap, rmax)
    hot.current_capacity, cold.current_capacity = hcap - hused, ccap - cused
    buf = Buffer(env, c, None, FakeCfg(hot=hot, cold=cold))
    sch = Scheduler(env, buf, c, None)
    sch.provision_ingest = len(c._resources['ingest'])
    obs = [Observation('o1', e1, d1, a1, 'wf', r1), Observation('o2', e2, d2, a2, 'wf', r2)]
    pipes = {'o1': {'ingest_demand': g1}, 'o2': {'ingest_demand': g2}}
    tel = Telescope(env, FakeCfg(instrument=(ta, pipes, obs, mi)), None, sch)
    tel.telescope_use = u0
    tel.telescope_status = u0 > 0
    mon = simh.Mon()
    simh.CUR = mon
    simh.STATE.clear()
    simh.STATE['sim'] = types.SimpleNamespace(cluster=c, buffer=buf)
    idle_before = (u0 == 0 and len(c._resources['available']) == N and hused == 0 and cused == 0)
    try:
        env.process(tel.run())
        try:
            env.run(until=3)
        except Exception as ex:
            if not mon.tags:
                return f'C08/raises/{type(ex).__name__}'
    finally:
        simh.CUR = None
    for t in mon.tags:
        if t.startswith('C08/'):
            return t
    if mon.begin:
        wit.reach('observation-started')
    if len(mon.begin) == 2:
        wit.reach('two-started-in-one-step')
    # on-time clause: completely idle system, feasible observation due now -> starts now
    started_now = [b['obs'].name for b in mon.begin if b['t'] == 1]
    if idle_before:
        first_due = None
        for o in obs:
            if o.est <= 1:
                first_due = o
                break
        if first_due is not None and first_due.est == 1 and first_due.name not in started_now:
            return 'C08/idle-system-did-not-start-due-observation-on-time'
    if tel.telescope_use > ta and u0 <= ta:
        return 'C08/arrays-in-use-exceed-total'
    if len(c._resources['ingest']) > mi and sch.provision_ingest <= mi:
        return 'C08/ingest-machines-exceed-limit'
    for o in obs:
        if o.status is RunStatus.RUNNING and o.name not in [b['obs'].name for b in mon.begin]:
            return 'C08/running-without-begin'
    return None


def feasible(u0, ta, mi, a1, a2, g1, g2, r1, r2, d1, d2, hcap, hused, ccap, cused, rmax):
    if not (0 <= u0 <= 1 and 1 <= ta <= 3 and u0 <= ta and 1 <= mi <= 3):
        return False
    if not (0 <= hused <= hcap and 0 <= cused <= ccap and rmax >= 1):
        return False
    for a, g, r, d in ((a1, g1, r1, d1), (a2, g2, r2, d2)):
        if not (1 <= a <= 2 and a <= ta and 1 <= g <= 2 and g <= mi and 1 <= d <= 2 and 1 <= r <= rmax):
            return False
        if not (r * d < hcap and r * d <= ccap):
            return False
    return True


def step(p1: int, p2: int, u0: int, ta: int, mi: int, e1: int, e2: int, a1: int, a2: int, g1: int, g2: int, r1: int, r2: int,
         d1: int, d2: int, hcap: int, hused: int, ccap: int, cused: int, rmax: int) -> bool:
    """
    pre: 0 <= p2 <= 3 and e1 == 1 and 1 <= e2 <= 2 and p1 == pinned_p1() and d1 == 1 and d2 == 2
    pre: focus(u0, ta, mi, a1, a2, g1, g2)
    pre: feasible(u0, ta, mi, a1, a2, g1, g2, r1, r2, d1, d2, hcap, hused, ccap, cused, rmax)
    post: _
    """
    t = step_tag(p1, p2, u0, ta, mi, e1, e2, a1, a2, g1, g2, r1, r2, d1, d2, hcap, hused, ccap, cused, rmax)
    wit.note(t, p1=p1, p2=p2, u0=u0, ta=ta, mi=mi, e1=e1, e2=e2, a1=a1, a2=a2, g1=g1, g2=g2, r1=r1, r2=r2, d1=d1, d2=d2,
             hcap=hcap, hused=hused, ccap=ccap, cused=cused, rmax=rmax)
    return wit.verdict(t)


_inner = step_tag


def pinned_p1():
    return PIN.get('p1', 0)


def focus(u0, ta, mi, a1, a2, g1, g2):
    """quick tier: one family of resources symbolic at a time (arrays / ingest machines); thorough: all at once"""
    f = PIN.get('focus', 'all')
    if f == 'arrays':
        return g1 == 1 and g2 == 1 and mi == 3
    if f == 'machines':
        return a1 == 1 and a2 == 1 and u0 == 0 and ta == 3
    return True


def step_tag(p1, p2, u0, ta, mi, e1, e2, a1, a2, g1, g2, r1, r2, d1, d2, hcap, hused, ccap, cused, rmax):   # noqa: F811
    return _inner(PIN.get('p0', 0), p1, p2, u0, ta, mi, e1, e2, a1, a2, g1, g2, r1, r2, d1, d2, hcap, hused, ccap, cused, rmax)


def warmup():
    _inner(0, 0, 1, 0, 4, 2, 1, 1, 1, 1, 1, 1, 5, 5, 1, 2, 100, 0, 100, 0, 10)


def shards(tier, prop):
    T = 240 if tier == 'quick' else 1800
    foci = ('arrays', 'machines') if tier == 'quick' else ('all',)
    out = [{'fn': 'step', 'pin': {'p0': p, 'p1': q, 'focus': f}, 'cond_timeout': T, 'path_timeout': 30} for p in range(4) for q in range(4) for f in foci
           if not (f == 'arrays' and (p, q) not in ((0, 0), (1, 2), (2, 0), (0, 3))) and not (tier == 'quick' and f == 'machines' and p > q)]
    # array checks do not read the pools: 4 pool pairs suffice; quick: unordered pool pairs (the third machine's pool is symbolic)
    out.append({'fn': 'step', 'pin': {'p0': 0}, 'cond_timeout': 40, 'twin': True})
    return out
