"""C01 - a machine never executes two tasks at once.
H1 adversarial proposals against the real Scheduler._process_current_schedule -> Cluster.allocate_task_to_cluster ->
   Task.do_work from every pool vector (prelude), including duplicated, busy, ingest and foreign-reserved machines.
H3 ingest provisioning and a workflow allocation round in the same timestep, in both creation orders."""
import simpy
from vk import wit, simh
from vk.kit import *
from vk.wit import pick, concretize as cz
from topsim.core.scheduler import Scheduler

PIN = {}
FUNCTIONS = [Scheduler._process_current_schedule, Scheduler._find_pred_allocations, Cluster.allocate_task_to_cluster, Cluster.is_occupied,
             Cluster._set_machine_occupied, Cluster.provision_ingest_resources, Task.do_work, Task.update_allocation]
META = {
    'bounds': {'C01.adversary.machines': 3, 'C01.adversary.pools': '5^3 pool vectors by prelude', 'C01.adversary.proposals': '2 tasks -> any of 3 machines each (incl. the same one)',
               'C01.adversary.workflow id': ['A', 'B', None], 'C01.adversary.horizon': '6 steps', 'C01.adversary.follow-up': 'ingest of every machine still listed as available, one step after the proposals', 'C01.race': 'ingest demand 1..2, both creation orders'},
    'outside_bounds': ['rounds with more than 2 proposals', 'more than 3 machines'],
    'stubs': ['E9 adversarial proposal = solver-chosen machine indices', 'FakeCfg instead of JSON config'], 'assumptions': [],
}
OWNERS = ['A', 'B', None]


def adv_tag(p0, p1, p2, a, b, who, d1, d2):
    wit.begin()
    d1, d2 = cz(d1, 0, 2), cz(d2, 0, 2)
    env, c = cluster_in_state([p0, p1, p2], busy_dur=3)
    sch = Scheduler(env, None, c, None)
    t1, t2 = mk_task('W_0_0', d1, machine_id='m0'), mk_task('W_0_1', d2, machine_id='m1')
    mon = simh.Mon()
    simh.CUR = mon
    try:
        m1, m2 = pick(c.machines, a), pick(c.machines, b)
        owner = pick(OWNERS, who)
        wit.reach('proposal-processed')
        try:
            sch._process_current_schedule({t1: m1, t2: m2}, {}, owner)
            env.run(env.now + 1)
            # honest follow-up in the next timestep: an ingest pipeline takes every machine the cluster still lists as
            # available (the largest demand check_ingest_capacity admits) - none of them may be executing anything
            g = len(c.get_available_resources())
            if g and c.check_ingest_capacity(g, 3):
                wit.reach('follow-up-ingest')
                env.process(c.provision_ingest_resources(g, Obs('ing', 2)))
            for _ in range(5):
                env.run(env.now + 1)
        except (RuntimeError, ValueError, KeyError):
            pass                              # "rejected with an error" is an allowed outcome; what already ran is still checked
        for t in mon.tags:
            if t.startswith('C01/'):
                return t
        # a task that was started ran on a machine that was free or reserved for the proposing workflow
        for rec in mon.alloc:
            if not rec['ingest'] and rec['task'].id.startswith('W_') and mon.activations.get(rec['task'].id):
                if rec['in_ingest'] or rec['in_occupied'] or rec['foreign']:
                    return 'C01/task-executed-on-busy-or-foreign-machine'
    finally:
        simh.CUR = None
    return None


def adv_ok_tag(p1, p2, a, b, who, d1, d2):
    return adv_tag(PIN['p0'], p1, p2, a, b, who, d1, d2)


def adv_ok(p1: int, p2: int, a: int, b: int, who: int, d1: int, d2: int) -> bool:
    """
    pre: 0 <= p1 <= 4 and 0 <= p2 <= 4 and 0 <= a <= 2 and 0 <= b <= 2 and 0 <= who <= 2
    pre: d1_range(d1) and d2 == 1
    post: _
    """
    t = adv_ok_tag(p1, p2, a, b, who, d1, d2)
    wit.note(t, p1=p1, p2=p2, a=a, b=b, who=who, d1=d1, d2=d2)
    return wit.verdict(t)


def d1_range(d1):
    return d1 == 2 if PIN.get('quick') else 0 <= d1 <= 2     # 2: still running when the follow-up of the next step arrives


def race_tag(p0, p1, p2, a, b, g, order, d1):
    """ingest provisioning (demand g) and an allocation round for machines a, b in the same timestep"""
    wit.begin()
    d1 = cz(d1, 0, 2)
    env, c = cluster_in_state([p0, p1, p2], busy_dur=3)
    sch = Scheduler(env, None, c, None)
    t1, t2 = mk_task('W_0_0', d1, machine_id='m0'), mk_task('W_0_1', 1, machine_id='m1')
    mon = simh.Mon()
    simh.CUR = mon
    try:
        def ingest():
            if c.check_ingest_capacity(g, 3):
                wit.reach('ingest-and-allocation-in-one-step')
                env.process(c.provision_ingest_resources(g, Obs('ing', 2)))

        def round_():
            # an honest algorithm: proposes machines that are available when it looks
            av = c.get_available_resources()
            sched = {}
            for t, k in ((t1, a), (t2, b)):
                m = pick(c.machines, k)
                if m in av and m not in sched.values():
                    sched[t] = m
            if sched:
                sch._process_current_schedule(sched, {}, None)
        def actor(fn):
            yield env.timeout(1)         # long-running actors act on their timeout events (as telescope / scheduler do)
            fn()
            yield env.timeout(1)
        try:
            # two actors of the same timestep in either creation order; each acts on its own turn and the processes
            # it spawns start right after it yields (SimPy initialises new processes before other pending events)
            for fn in ((ingest, round_) if order else (round_, ingest)):
                env.process(actor(fn))
            for _ in range(6):
                env.run(env.now + 1)
        except (RuntimeError, ValueError):
            return 'C01/honest-proposal-rejected-with-error'
        for t in mon.tags:
            if t.startswith('C01/'):
                return t
    finally:
        simh.CUR = None
    return None


def race_s_tag(p1, p2, a, b, g, order, d1):
    return race_tag(PIN['p0'], p1, p2, a, b, g, order, d1)


def race_s(p1: int, p2: int, a: int, b: int, g: int, order: bool, d1: int) -> bool:
    """
    pre: 0 <= p1 <= 2 and 0 <= p2 <= 2 and 0 <= a <= 2 and 0 <= b <= 2 and 1 <= g <= 2 and d1_range(d1)
    post: _
    """
    t = race_s_tag(p1, p2, a, b, g, order, d1)
    wit.note(t, p1=p1, p2=p2, a=a, b=b, g=g, order=order, d1=d1)
    return wit.verdict(t)


def warmup():
    adv_tag(0, 1, 3, 0, 0, 0, 1, 1)
    race_tag(0, 0, 2, 0, 1, 1, True, 1)


def shards(tier, prop):
    T = 240 if tier == 'quick' else 1500
    out = [{'fn': 'adv_ok', 'pin': {'p0': p, 'quick': tier == 'quick'}, 'cond_timeout': T, 'path_timeout': 30} for p in range(5)]
    out += [{'fn': 'race_s', 'pin': {'p0': p, 'quick': tier == 'quick'}, 'cond_timeout': T, 'path_timeout': 30} for p in range(3)]
    out.append({'fn': 'adv_ok', 'pin': {'p0': 0}, 'cond_timeout': 40, 'twin': True})
    out.append({'fn': 'race_s', 'pin': {'p0': 0, 'quick': True}, 'cond_timeout': 40, 'twin': True})
    return out
