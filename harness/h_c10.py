"""C10 - simulations are reproducible.
H1 the same configuration is run twice inside one path with two iteration orders of the scheduler's ready-task set
   (RankSet abstraction of CPython's hash order, E8: iteration order = a permutation chosen by the solver); the outputs
   (per-timestep table minus algtime, task table, event log) must be equal.  A difference found on the abstraction is
   confirmed on the real interpreter by running sub-processes with different PYTHONHASHSEED before it is reported.
H2 same seed and arguments -> same delay (shared stub with C15)."""
import itertools, json, os, subprocess
from vk import wit, simh
from vk.wit import concretize as cz
import topsim.core.scheduler as S
from topsim.core.delay import DelayModel

PIN = {}
FUNCTIONS = [S.Scheduler.allocate_tasks, S.Scheduler._generate_current_schedule, S.Scheduler._process_current_schedule,
             simh.BatchProcessing.run, simh.QueueProcessing.run, simh.DynamicSchedulingFromPlan.run, simh.Task.__hash__, DelayModel.generate_delay]
META = {
    'bounds': {'C10.ready_set': '<= 3 tasks (all 6 iteration orders)', 'C10.machines': '2-3 heterogeneous (10, 20[, 20])', 'C10.observations': '2, start 0..2',
               'C10.workflow': '3 tasks, shapes free / fork / join, compute 10..40; integer node names, and string names sharing a trailing number (cal_1, img_1, cal_2)', 'C10.algorithms': ['BatchProcessing', 'QueueProcessing', 'DynamicSchedulingFromPlan+static stub'],
               'C10.real_seed_search': 'PYTHONHASHSEED 0..23 on a refutation'},
    'outside_bounds': ["CPython's actual probe sequence (orders are an over-approximation; cross-process equality is replayed, not proved)", 'ready sets > 3 tasks'],
    'stubs': simh.STUBS + ['E8b SaltedHash: the name hash in every topsim module -> builtin hash with string hashes salted per run', 'E10b SeedDelay: delay = seed % 3', 'E8 RankSet: the name set in every topsim module -> a set subclass whose iteration order (also of derived sets) is a solver-chosen permutation of tasks / machines'], 'assumptions': [],
}
PERMS = list(itertools.permutations(range(3)))
PERM = [PERMS[0]]


def _rank(x):
    """position of an element in the solver-chosen iteration order: workflow tasks by graph node, machines by index"""
    g = getattr(x, 'graph_id', None)
    if isinstance(g, int):
        return PERM[0][g % 3]
    if isinstance(g, str) and g in (PIN.get('labels') or []):
        return PERM[0][PIN['labels'].index(g) % 3]
    i = getattr(x, 'id', None)
    if isinstance(i, str) and i[-1:].isdigit():
        return PERM[0][int(i[-1]) % 3]
    return 0


class RankSet(set):
    """stands in for the builtin set inside the topsim modules: same operations, but iteration order is the permutation
    PERM (E8) instead of CPython's hash order; derived sets (difference, union ...) keep the property"""

    def __iter__(self):
        return iter(sorted(set.__iter__(self), key=_rank))

    def _wrap(self, r):
        return RankSet(set.__iter__(r)) if isinstance(r, set) else r

    def __sub__(self, o):
        return self._wrap(set.__sub__(self, o))

    def __or__(self, o):
        return self._wrap(set.__or__(self, o))

    def __and__(self, o):
        return self._wrap(set.__and__(self, o))

    def __xor__(self, o):
        return self._wrap(set.__xor__(self, o))

    def difference(self, *o):
        return self._wrap(set.difference(self, *o))

    def union(self, *o):
        return self._wrap(set.union(self, *o))

    def intersection(self, *o):
        return self._wrap(set.intersection(self, *o))

    def copy(self):
        return RankSet(set.__iter__(self))

    def pop(self):
        x = next(iter(self))
        set.discard(self, x)
        return x


class SaltedHash:
    """E8b: stands in for the builtin hash inside the topsim modules: str / bytes (and tuples containing them) hash
    differently in every interpreter process (PYTHONHASHSEED); the salt is chosen with the iteration order"""

    def __init__(self, salt):
        self.salt = salt

    def _salted(self, x):
        if isinstance(x, (str, bytes)):
            return True
        if isinstance(x, (tuple, frozenset)):
            return any(self._salted(y) for y in x)
        return False

    def __call__(self, x):
        h = hash(x)
        return (h ^ (self.salt * 0x9E3779B97F4A7C15)) & 0x7FFFFFFFFFFFFFFF if (self.salt and self._salted(x)) else h


def _set_modules():
    import topsim.core.cluster, topsim.core.buffer, topsim.core.task, topsim.core.planner, topsim.user.telescope
    import topsim.user.schedule.batch_allocation, topsim.user.schedule.queue_allocation, topsim.user.schedule.dynamic_plan, topsim.user.schedule.greedy
    import topsim.user.plan.batch_planning, topsim.core.monitor, topsim.core.simulation
    return [S, topsim.core.cluster, topsim.core.buffer, topsim.core.task, topsim.core.planner, topsim.user.telescope,
            topsim.user.schedule.batch_allocation, topsim.user.schedule.queue_allocation, topsim.user.schedule.dynamic_plan,
            topsim.user.schedule.greedy, topsim.user.plan.batch_planning, topsim.core.monitor, topsim.core.simulation]


def scenario(s2, c0, c1, c2):
    shape = PIN.get('shape', 'free')
    edges = {'free': [], 'fork': [[0, 1, 5], [0, 2, 5]], 'join': [[0, 2, 5], [1, 2, 5]]}[shape]
    sc = dict(machines=PIN.get('machines', [10, 20]), bw=5, max_ingest=2, arrays=4, hot=1000, cold=1000, hot_rate=100, cold_rate=100,
              obs=[dict(start=0, dur=1, arrays=1, ingest=1, rate=5), dict(start=s2, dur=2, arrays=1, ingest=1, rate=5)],
              graphs=[dict(n=3, edges=edges, labels=PIN.get('labels'), comps=[PIN.get('scale', 10) * c0, PIN.get('scale', 10) * c1, PIN.get('scale', 10) * c2])], alg=dict(kind='queue'), delays=[])
    if PIN.get('seed_delay') is not None:
        sc['seed_delay'] = PIN['seed_delay']      # the planner's own delay model, copied per task
    a = PIN.get('alg', 'queue')
    if a == 'batch':
        sc['alg'] = dict(kind='batch', parts=1, min=1)
    elif a == 'dynamic':
        sc['alg'] = dict(kind='dynamic')
        sc['graphs'][0]['durs'] = [c0, c1, c2]
        sc['assign'] = [[0, 1, 0], [1, 0, 1]]
        sc['ests'] = [[0, 0, 0], [0, 0, 0]]
    return sc


def _outputs(sc, perm):
    PERM[0] = PERMS[perm]
    mods = _set_modules()
    saved = [(m.__dict__.get('set'), m.__dict__.get('hash')) for m in mods]
    for m in mods:
        m.set = RankSet                    # every set() created by topsim code in this run iterates in the chosen order
        m.hash = SaltedHash(perm)          # and every hash() of a string it computes is salted per run
    try:
        return simh.outputs(simh.run_public(sc, [PIN.get('T', 24)]))
    finally:
        for m, (old, oldh) in zip(mods, saved):
            for name, o in (('set', old), ('hash', oldh)):
                if o is None:
                    del m.__dict__[name]
                else:
                    m.__dict__[name] = o


def seeds_differ(sc, n=24):
    """the same scenario in sub-processes of the real interpreter with different hash seeds"""
    env = dict(os.environ, PYTHONPATH=os.environ.get('VERIF_REPO', '/repo') + ':/verif', PYTHONDONTWRITEBYTECODE='1')
    digests = set()
    for seed in range(n):
        env['PYTHONHASHSEED'] = str(seed)
        p = subprocess.run([os.sys.executable, '-m', 'vk.seedrun', json.dumps(sc), str(PIN.get('T', 24))], capture_output=True, text=True, env=env, cwd='/verif')
        for line in p.stdout.splitlines():
            if line.startswith('DIGEST '):
                digests.add(line[7:])
        if len(digests) > 1:
            return True
    return False


def _order(pa, s2, c0, c1, c2):
    sc = scenario(s2, c0, c1, c2)
    ref = _outputs(sc, 0)
    got = _outputs(sc, pa)
    for key in ('table', 'tasks', 'events'):
        if got[key] != ref[key]:
            if not ANALYSIS[0] and not seeds_differ(sc):
                return None         # difference exists only on the abstraction: not reported
            return f'C10/{key}-depend-on-set-iteration-order-or-string-hash-salt'
    return None


ANALYSIS = [False]


def order_tag(pa, s2, c0, c1, c2):
    wit.begin()
    pa, s2, c0, c1, c2 = cz(pa, 0, 5), cz(s2, 0, 2), cz(c0, 1, 4), cz(c1, 1, 4), cz(c2, 1, 4)
    if pa != 0:
        wit.reach('different-iteration-order')
    try:
        from crosshair.tracers import is_tracing
        ANALYSIS[0] = is_tracing()
    except Exception:
        ANALYSIS[0] = False
    return wit.native(_order, pa, s2, c0, c1, c2)


def order(pa: int, s2: int, c0: int, c1: int, c2: int) -> bool:
    """
    pre: 0 <= pa <= 5 and 0 <= s2 <= 2 and 1 <= c0 <= 4 and 1 <= c1 <= 4 and 1 <= c2 <= 4
    post: _
    """
    t = order_tag(pa, s2, c0, c1, c2)
    wit.note(t, pa=pa, s2=s2, c0=c0, c1=c1, c2=c2)
    return wit.verdict(t)


def rerun_tag(s2, c0, c1, c2):
    """two runs of the same configuration in one process give identical outputs (no hidden global state)"""
    wit.begin()
    s2, c0, c1, c2 = cz(s2, 0, 2), cz(c0, 1, 4), cz(c1, 1, 4), cz(c2, 1, 4)
    wit.reach('ran-twice')

    def body(s2, c0, c1, c2):
        sc = scenario(s2, c0, c1, c2)
        sc['delays'] = [1, 0, 2]
        if PIN.get('reuse_planner'):
            # real workflow files parsed by the real planner; the second Simulation is given the first one's planning object
            sc['real_wf'] = True
            first = simh.run_public(sc, [PIN.get('T', 24)])
            a = simh.outputs(first)
            b = simh.outputs(simh.run_public(dict(sc, _model=first.planner.model), [PIN.get('T', 24)]))
            return None if a == b else 'C10/second-run-with-the-same-planning-object-differs'
        a = simh.outputs(simh.run_public(sc, [PIN.get('T', 24)]))
        b = simh.outputs(simh.run_public(sc, [PIN.get('T', 24)]))
        return None if a == b else 'C10/second-run-differs'
    return wit.native(body, s2, c0, c1, c2)


def rerun(s2: int, c0: int, c1: int, c2: int) -> bool:
    """
    pre: 0 <= s2 <= 2 and 1 <= c0 <= 4 and 1 <= c1 <= 4 and 1 <= c2 <= 4
    post: _
    """
    t = rerun_tag(s2, c0, c1, c2)
    wit.note(t, s2=s2, c0=c0, c1=c1, c2=c2)
    return wit.verdict(t)


def seeds_job(spec):
    """translation validation of the RankSet abstraction: the same scenarios on the REAL interpreter under different
    PYTHONHASHSEED values must give one digest (no solver involved; counted as traces validated against the implementation)"""
    n = 0
    for pin, args in (({'alg': 'queue', 'shape': 'free'}, (0, 3, 4, 4)), ({'alg': 'batch', 'shape': 'join'}, (1, 4, 1, 4)),
                      ({'alg': 'dynamic', 'shape': 'free'}, (0, 3, 1, 1)), ({'alg': 'batch', 'shape': 'free', 'machines': [10, 20, 30, 40], 'scale': 30}, (1, 2, 3, 4))):
        PIN.clear()
        PIN.update(pin)
        sc = scenario(*args)
        n += 6
        if seeds_differ(sc, 6):
            # a difference between real interpreter processes needs no abstraction: the replay re-runs the seed search itself
            return {'status': 'REFUTED', 'cex': {'s2': args[0], 'c0': args[1], 'c1': args[2], 'c2': args[3]}, 'paths': 1, 'queries': 1,
                    'cex_message': f'outputs differ between PYTHONHASHSEED values for {pin}/{args}', 'pin': pin, 'fn': 'seeds', 'validated': n}
    return {'status': 'CONFIRMED', 'paths': 4, 'queries': 0, 'validated': n, 'detail': '4 scenarios x 6 hash seeds on the real interpreter: one digest each',
            'witnesses': [{'scenario': 'queue/free (0,3,4,4)', 'seeds': 6, 'digests': 1}]}


def seeds_tag(s2, c0, c1, c2):
    """replay entry of the real-interpreter job: the same scenario under different PYTHONHASHSEED values"""
    return 'C10/outputs-differ-between-PYTHONHASHSEED-values' if seeds_differ(scenario(s2, c0, c1, c2), 12) else None


def warmup():
    _order(1, 1, 1, 2, 3)


def shards(tier, prop):
    out = []
    T = 200 if tier == 'quick' else 900
    for alg in ('queue', 'batch', 'dynamic'):
        for shape in ('free', 'fork', 'join'):
            out.append({'fn': 'order', 'pin': {'alg': alg, 'shape': shape}, 'cond_timeout': T})
        out.append({'fn': 'order', 'pin': {'alg': alg, 'shape': 'free', 'machines': [10, 20, 20]}, 'cond_timeout': T})
        out.append({'fn': 'rerun', 'pin': {'alg': alg, 'shape': 'fork'}, 'cond_timeout': T})
    # a reservation of several unequal machines that is released and handed to the next workflow
    out.append({'fn': 'order', 'pin': {'alg': 'batch', 'shape': 'free', 'machines': [10, 20, 30, 40], 'scale': 30}, 'cond_timeout': T})
    out.append({'fn': 'order', 'pin': {'alg': 'batch', 'shape': 'fork', 'machines': [10, 20, 30, 40], 'scale': 30}, 'cond_timeout': T})
    # workflow node names that are strings sharing their trailing number ('cal_1', 'img_1'): any key derived from a part of the id ties
    out.append({'fn': 'order', 'pin': {'alg': 'batch', 'shape': 'free', 'machines': [10, 20, 30, 40], 'scale': 30, 'labels': ['cal_1', 'img_1', 'cal_2']}, 'cond_timeout': T})
    out.append({'fn': 'order', 'pin': {'alg': 'queue', 'shape': 'free', 'machines': [10, 20, 30], 'labels': ['cal_1', 'img_1', 'cal_2']}, 'cond_timeout': T})
    # the same planning object used for a second simulation of the same configuration (real workflow files, real parser)
    out += [{'fn': 'rerun', 'pin': {'alg': a, 'shape': 'fork', 'reuse_planner': True}, 'cond_timeout': T} for a in ('queue', 'batch')]
    # the planner carries its own seeded delay model (copied per task); string hashes salted differently in the two runs
    out.append({'fn': 'order', 'pin': {'alg': 'queue', 'shape': 'fork', 'seed_delay': 20}, 'cond_timeout': T})
    out.append({'fn': 'order', 'pin': {'alg': 'batch', 'shape': 'join', 'seed_delay': 7}, 'cond_timeout': T})
    out.append({'kind': 'py', 'fn': 'seeds_job', 'cond_timeout': 200, 'name': 'real-interpreter:hash-seeds'})
    out.append({'fn': 'order', 'pin': {'alg': 'queue', 'shape': 'free'}, 'cond_timeout': 40, 'twin': True})
    return out
