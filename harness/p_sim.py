"""Shard lists of the SIMH grid harness per property (which profile, which bounds, which oracle prefixes)."""
from harness.h_sim import G, R_TWO, R_THREE, R_ONE, R_FOUR, META, FUNCTIONS

PIN = {}
ALG3 = ('queue', 'batch1', 'batch2')
R_SINGLES = [(1, 3), (3, 7), (0, 1), (3, 6), (0, 1), (1, 2), (1, 2), (2, 2)]
PIN_ROT = {'queue': 0, 'batch1': 1, 'batch2': 2}


def twin(spec):
    t = dict(spec)
    t['twin'] = True
    t['cond_timeout'] = 30
    return t


def timing_family(props, tier, three_shapes=('chain', 'join', 'relabel', 'free')):
    out = []
    for alg in ALG3:
        out.append(G('two', R_TWO, props, alg=alg))
        out.append(G('two', R_TWO, props, alg=alg, edge=False, machines=[10, 20]))
        for sh in three_shapes:
            out.append(G('three', R_THREE, props, alg=alg, shape=sh))
    # three observations that may all fall due together on a two-machine cluster (ingest limit above the cluster size)
    out.append(G('three', [(0, 1), (0, 1), (1, 2), (1, 2), (1, 2), (0, 2), (1, 1), (0, 1)], props, alg='queue', shape='revjoin', machines=[10, 20], max_ingest=3))
    out.append(G('three', [(0, 1), (0, 1), (1, 2), (1, 2), (1, 2), (0, 2), (1, 1), (0, 1)], props, alg='batch2', shape='revchain', machines=[10, 20, 10], max_ingest=3, ingest=[1, 1, 2]))
    # workflows that finish out of queue order (a long one queued before a short one)
    out.append(G('singles', R_SINGLES, props, alg='queue'))
    out.append(G('singles', R_SINGLES, props, alg='batch3'))
    # a single observation: the run ends with its workflow (last tasks finishing together on every reserved machine)
    for alg in ('batch1', 'queue'):
        out.append(G('one', R_ONE, props, alg=alg))
    if tier != 'quick':
        for alg in ALG3:
            for sh in ('chain', 'fork', 'join', 'free', 'tri'):
                out.append(G('three', [(0, 3), (0, 4), (1, 3), (1, 3), (1, 2), (0, 2), (0, 2), (0, 2)], props, T=1500, alg=alg, shape=sh, ingest=[1, 2, 1]))
            for sh in ('relabel', 'revchain', 'revjoin'):
                out.append(G('three', [(0, 3), (0, 4), (1, 3), (1, 3), (1, 2), (0, 2), (0, 2), (0, 2)], props, T=1500, alg=alg, shape=sh, machines=[10, 20, 20]))
                out.append(G('three', [(0, 3), (0, 4), (1, 3), (1, 2), (1, 3), (0, 2), (0, 2), (0, 2)], props, T=1500, alg=alg, shape=sh, machines=[10, 20], max_ingest=1))
    return out


def shards(tier, prop):
    props = [prop + '/']
    out = []
    if prop == 'C11':
        return [{'kind': 'py', 'module': 'vk.simh', 'fn': 'validate_fakepd', 'cond_timeout': 120, 'name': 'stub-validation:pandas'}]
    if prop in ('C12', 'C13', 'C19', 'C02', 'C03', 'C08'):
        out = timing_family(props, tier)
        if prop in ('C12', 'C13'):
            # the public API driven for a fixed horizon beyond completion, in one piece and with pauses
            for a in ('queue', 'batch1'):
                for hz in ([40], [1, 4, 40], [2, 3, 5, 40]):
                    out.append(G('two', R_TWO, props, alg=a, horizon=hz))
        if prop == 'C12':
            # observations whose duration is not a whole number of timesteps (1.5, 2.5: a non-second unit): what was streamed in
            # differs from rate x duration; the buffer columns are compared with the data resident, not with the buffer's counter
            out += [G('two', R_TWO, props, alg=a, horizon=[2, 5, 40], dur_frac=0.5) for a in ('queue', 'batch1')]
        if prop == 'C12':     # a legal but degenerate setting (no global minimum): only the table column is asserted there
            out.append(G('two', [(0, 2), (2, 3), (3, 4), (0, 2), (0, 2), (1, 1), (2, 2), (5, 5)], props, alg='batch0split', machines=[10, 20]))
        if prop == 'C02':
            out += [G('two', R_TWO, props, alg=a) for a in ('reserve1', 'reserve2')]
        if prop == 'C03':
            # plan-following algorithms on a static plan: tasks moved off their planned machine, predecessors on the same / another machine
            RS = [(0, 2), (1, 2), (0, 1), (0, 2), (0, 2), (0, 2), (0, 2), (0, 2)]
            out += [G('static', RS, props, T=400, alg=a) for a in ('greedy', 'dynamic')]
            # one predecessor feeding two successors over edges of different volume
            out += [G('three', R_THREE, props, alg=a, shape=sh) for a in ('queue', 'batch2') for sh in ('fork2', 'tri')]
            # edge volumes that are not whole multiples of the bandwidth (fractional transfer times)
            out += [G('two', [(0, 2), (1, 2), (1, 2), (0, 2), (0, 2), (1, 2), (2, 2), (6, 8)], props, alg=a, machines=[10, 20]) for a in ('queue', 'batch2')]
        out.append(G('delay', [(0, 2), (1, 2), (1, 2), (0, 2), (0, 2), (0, 2), (0, 2), (0, 1)], props, alg='batch1'))
    elif prop in ('C06', 'C15'):
        for alg in ('queue', 'batch2'):
            out.append(G('two', [(0, 2), (1, 2), (1, 2), (0, 2), (0, 2), (1, 2), (2, 2), (6, 7)], props, alg=alg, machines=[10, 20]))
            out.append(G('delay', [(0, 2), (1, 2), (1, 2), (0, 2), (0, 2), (0, 2), (0, 2), (0, 1)], props, alg=alg, vol=10))
        out.append(G('three', R_THREE, props, alg='queue', shape='join'))
        if prop == 'C15':
            # the second observation starts after the first (delayed) workflow is over: the report must persist
            for alg in ('queue', 'batch1'):
                out.append(G('delay', [(0, 2), (1, 2), (1, 2), (0, 2), (0, 2), (0, 2), (0, 2), (0, 1)], props, alg=alg, vol=10, s2_offset=8))
    elif prop == 'C17':
        RS = [(0, 2), (1, 2), (0, 1), (0, 2), (0, 2), (0, 2), (0, 2), (0, 2)]
        out.append(G('static', RS, props, T=400, alg='dynamic'))
        out.append(G('static', RS, props, T=400, alg='dynamic', edge=False, g2=2))
        out.append(G('static', RS, props, T=400, alg='dynamic', machines=[10, 20, 20], d1=2, d2=1))
        # machine ids that share their last '_'-separated token across categories
        out.append(G('static', RS, props, T=400, alg='dynamic', names=['cat0_m0', 'cat1_m0', 'cat1_m1']))
        # machine ids one of which is a prefix of the others (m1 / m10 / m11 as in clusters of more than ten machines)
        out.append(G('static', RS, props, T=400, alg='dynamic', names=['n1', 'n10', 'n11']))
        out.append(G('static', RS, props, T=400, alg='dynamic', names=['n10', 'n1', 'n11']))
    elif prop == 'C01':
        for alg in ALG3:
            out.append(G('two', R_TWO, props, alg=alg))
        # one-machine reservations that are released, then a later ingest that needs two machines
        out.append(G('singles', R_SINGLES, props, alg='batch3'))
        out.append(G('singles', R_SINGLES, props, alg='queue'))
        RS = [(0, 2), (1, 2), (0, 1), (0, 2), (0, 2), (0, 2), (0, 2), (0, 2)]
        out.append(G('static', RS, props, T=400, alg='dynamic'))
        out.append(G('static', RS, props, T=400, alg='greedy'))
        for honest in (True, False):
            out.append(G('adv', [(0, 1), (1, 1), (0, 2), (-1, 2), (-1, 2), (-1, 2), (0, 2), (0, 0)], props, honest=honest))
        out.append(G('delay', [(0, 2), (1, 2), (1, 2), (0, 2), (0, 2), (0, 2), (0, 2), (0, 1)], props, alg='queue'))
        # overlapping ingests where the one that started later ends first
        for a in ('queue', 'batch2'):
            out.append(G('two', [(1, 2), (3, 5), (1, 1), (0, 2), (0, 2), (1, 2), (2, 2), (5, 5)], props, alg=a, g1=1, edge=False))
            out.append(G('two', [(1, 2), (3, 5), (1, 2), (0, 2), (0, 2), (1, 2), (2, 2), (5, 5)], props, alg=a, g1=2, edge=False, machines=[10, 20, 10, 10]))
        # delayed tasks on a cluster with no spare machine: whatever is released at the planned finish is taken at once
        out.append(G('delay', [(0, 2), (1, 2), (1, 2), (1, 2), (1, 2), (0, 3), (0, 3), (0, 1)], props, alg='queue', machines=[10, 20]))
        out.append(G('delay', [(0, 2), (1, 2), (1, 2), (1, 2), (1, 2), (0, 3), (0, 3), (0, 1)], props, alg='batch2', machines=[10, 20]))
    elif prop == 'C09':
        for alg in ('batch1', 'batch2', 'reserve2'):
            out.append(G('two', R_TWO, props, alg=alg))
            out.append(G('three', R_THREE, props, alg=alg, shape='join'))
            out.append(G('three', R_THREE, props, alg=alg, shape='free', machines=[10, 20, 10, 10], ingest=[2, 1, 1]))
        out.append(G('one', R_ONE, props, alg='batch1'))
        out.append(G('two', R_TWO, props, alg='batchsplit'))
    elif prop == 'C04':
        out = timing_family(props, tier)
        # a user algorithm that reserves machines and leaves the release to the Scheduler
        out += [G('two', R_TWO, props, alg=a) for a in ('reserve1', 'reserve2')]
        out.append(G('three', R_THREE, props, alg='reserve2', shape='join'))
        out.append(G('delay', [(0, 2), (1, 2), (1, 2), (0, 2), (0, 2), (0, 2), (0, 2), (0, 1)], props, alg='queue'))
        for honest in (True, False):
            out.append(G('adv', [(0, 1), (1, 1), (0, 2), (-1, 2), (-1, 2), (-1, 2), (0, 2), (0, 0)], props, honest=honest))
        # a user algorithm that proposes the same free machine for every ready task (the Scheduler defers all but one)
        out += [G('three', R_THREE, props, alg='dupfirst', shape=sh) for sh in ('free', 'fork')]
    if prop == 'C07':
        out = [G('two', R_TWO, props, alg=a) for a in ALG3]
        # workflows that complete out of the order in which they were handed to the scheduler
        out += [G('singles', R_SINGLES, props, alg=a) for a in ('queue', 'batch3')]
    if prop in ('C05', 'C07', 'C08'):
        timings = [[1, 2, 2, 1, 1], [0, 1, 2, 0, 1], [2, 2, 1, 1, 0]] if tier == 'quick' else \
                  [[1, 2, 2, 1, 1], [0, 1, 2, 0, 1], [2, 2, 1, 1, 0], [0, 2, 2, 2, 0]]
        for alg in ALG3:
            for tm in timings:
                if tier == 'quick' and tm != timings[PIN_ROT[alg]]:
                    continue        # quick: one timing per algorithm; these traced shards are bug-hunting only unless they exhaust
                out.append({'module': 'harness.h_sim', 'fn': 'sizes', 'pin': {'alg': alg, 'timing': tm, 'props': props},
                            'cond_timeout': 75 if tier == 'quick' else 600, 'path_timeout': 90})
    if prop == 'C05':
        out += timing_family(props, tier, three_shapes=('relabel', 'revjoin'))
        # machine shortage / ingest limit / simultaneous starts (concrete sizes, threshold not crossed)
        for alg in ALG3:
            out.append(G('two', [(0, 2), (1, 2), (1, 2), (0, 2), (0, 2), (1, 2), (1, 2), (5, 5)], props, alg=alg, machines=[10, 20], g1=2))
            out.append(G('three', R_THREE, props, alg=alg, shape='join', machines=[10, 20], max_ingest=1))
            out.append(G('three', R_THREE, props, alg=alg, shape='chain', max_ingest=2, ingest=[2, 1, 2]))
        # two observations admitted in one step, then one whose ingest needs every machine the limit allows
        out += [G('three', R_THREE, props, alg=a, shape='free', machines=[10, 20, 10, 10], max_ingest=3, ingest=[1, 1, 3]) for a in ('queue', 'batch2')]
        # per-observation (min, max) reservation sizes whose minimum may exceed what is free at that moment
        out.append(G('three', R_THREE, props, alg='batchsplit', shape='free'))
        out.append(G('two', R_TWO, props, alg='batchsplit'))
    if prop in ('C04', 'C05', 'C08', 'C13'):
        # four observations competing for the telescope's arrays (held back, overtaken, starting late)
        out += [G('four', R_FOUR, props, alg=a) for a in ('queue', 'batch2')]
    if prop in ('C04', 'C11', 'C12', 'C13'):
        out.append({'kind': 'py', 'module': 'vk.simh', 'fn': 'validate_fakepd', 'cond_timeout': 120, 'name': 'stub-validation:pandas'})
    out.append(twin([o for o in out if o.get('fn') == 'grid'][0]))
    return out
