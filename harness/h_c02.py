"""C02 - every machine in exactly one pool; counts are true.

H1  bounded operation histories on the real Cluster under the real SimPy kernel (DESIGN 5.2).
H2  one-step inductive harness: symbolic pool vector (built by prelude), one operation, invariant after.
"""
from vk import wit
from vk.kit import *
from vk.wit import pick

PIN = {}
N = 3
NAMES = ['A', 'B']
OPS = ['provision_batch', 'release_batch', 'provision_ingest', 'allocate', 'advance']

FUNCTIONS = [Cluster.provision_batch_resources, Cluster.release_batch_resources, Cluster.provision_ingest_resources,
             Cluster.allocate_task_to_cluster, Cluster.check_ingest_capacity, Cluster._set_machine_occupied,
             Cluster._set_machine_available, Cluster._add_idle_resource, Cluster._reset_idle_resources,
             Cluster._update_available_resources, Cluster.run, Task.do_work]
META = {
    'bounds': {'C02.machines': 3, 'C02.history_depth': '3 (quick) / 4 (thorough)', 'C02.reservation_names': 2,
               'C02.ops': OPS, 'C02.task_duration': 2, 'C02.one_step_pool_states': '6^3 pool vectors by prelude (incl. a task running on a machine of its own reservation)'},
    'outside_bounds': ['clusters > 3 machines', 'histories deeper than the stated depth (covered only through the one-step inductive harness H2)',
                       'num_provisioned_obs after two direct provision calls for the same name (outside the statement)'],
    'stubs': ['FakeCfg instead of JSON config (3 machines, cpu 10, bw 10)'],
    'assumptions': ['documented API use: size>=1, ingest provisioning only after check_ingest_capacity succeeded'],
}


def apply(env, c, k, op, x, y, st):
    """one operation; returns a violation tag or None"""
    before = snapshot(c)
    counters = (dict(c._usage_data), c.num_provisioned_obs)
    # other work due at this very instant (a finishing ingest, the cluster's poll) runs inside the same drain() as the
    # call under test: "unchanged after a refusal" can only be asked when nothing else is pending now
    quiet = env.peek() > env.now
    try:
        if op == 0:
            name = pick(NAMES, y)
            if c.is_observation_provisioned(name):
                st['protocol'] = False          # double provision: reservation counter not asserted afterwards
            c.provision_batch_resources(pick([1, 2, 3], x), name)
        elif op == 1:
            c.release_batch_resources(pick(NAMES, y))
        elif op == 2:
            d = pick([1, 2], x)
            if not c.check_ingest_capacity(d, N):
                return None
            env.process(c.provision_ingest_resources(d, Obs(f"obs{k}", 2)))
        elif op == 3:
            t = mk_task(f"t{k}", 2)
            m = pick(c.machines, x)
            owner = pick([NAMES[0], NAMES[1], None], y)
            wit.reach('allocate')
            env.process(c.allocate_task_to_cluster(t, m, None, owner))
        else:
            env.run(env.now + 1)
            return None
        drain(env)
        return None
    except (RuntimeError, ValueError, IndexError):
        # a refused call must leave pools and counters unchanged
        if quiet and (snapshot(c) != before or (dict(c._usage_data), c.num_provisioned_obs) != counters):
            return 'C02/refused-call-changed-state/' + OPS[op]
        return None


def history_tag(ops):
    wit.begin()
    env, c = new_cluster(N)
    st = {'protocol': True}
    for k, (o, x, y) in enumerate(ops):
        t = apply(env, c, k, o, x, y, st)
        if t is None:
            t = cluster_invariant(c, st['protocol'])
        if t is not None:
            return t + '/after-' + OPS[o]
    return None


def hist3_tag(x1, y1, x2, y2, x3, y3):
    return history_tag([(PIN['o1'], x1, y1), (PIN['o2'], x2, y2), (PIN['o3'], x3, y3)])


def hist3(x1: int, y1: int, x2: int, y2: int, x3: int, y3: int) -> bool:
    """
    pre: 0 <= x1 <= 2 and 0 <= x2 <= 2 and 0 <= x3 <= 2 and 0 <= y1 <= 2 and 0 <= y2 <= 2 and 0 <= y3 <= 2
    post: _
    """
    t = hist3_tag(x1, y1, x2, y2, x3, y3)
    wit.note(t, x1=x1, y1=y1, x2=x2, y2=y2, x3=x3, y3=y3)
    return wit.verdict(t)


def hist4_tag(x1, y1, x2, y2, x3, y3, x4, y4):
    return history_tag([(PIN['o1'], x1, y1), (PIN['o2'], x2, y2), (PIN['o3'], x3, y3), (PIN['o4'], x4, y4)])


def hist4(x1: int, y1: int, x2: int, y2: int, x3: int, y3: int, x4: int, y4: int) -> bool:
    """
    pre: 0 <= x1 <= 2 and 0 <= x2 <= 2 and 0 <= x3 <= 2 and 0 <= x4 <= 2
    pre: 0 <= y1 <= 2 and 0 <= y2 <= 2 and 0 <= y3 <= 2 and 0 <= y4 <= 2
    pre: PIN.get('x1') in (None, x1) and PIN.get('y1') in (None, y1)
    post: _
    """
    t = hist4_tag(x1, y1, x2, y2, x3, y3, x4, y4)
    wit.note(t, x1=x1, y1=y1, x2=x2, y2=y2, x3=x3, y3=y3, x4=x4, y4=y4)
    return wit.verdict(t)


# ---- H2: one step from an arbitrary valid pool vector ---------------------------------------------------
def _step(p0, p1, p2, op, x, y, adv):
    wit.begin()
    env, c = cluster_in_state([p0, p1, p2])
    t = cluster_invariant(c)
    if t is not None:
        return 'HARNESS/prelude-broke-invariant/' + t       # the assumed pre-state must satisfy the invariant
    st = {'protocol': True}
    t = apply(env, c, 9, op, x, y, st)
    if t is None:
        t = cluster_invariant(c, st['protocol'])
    if t is not None:
        return t + '/step-' + OPS[op]
    # let running work finish: everything comes back, counters still true (inductive over time advance)
    for _ in range(adv):
        env.run(env.now + 1)
        t = cluster_invariant(c, st['protocol'])
        if t is not None:
            return t + '/advance-after-' + OPS[op]
    if adv >= 5:
        r = c._resources
        if r['ingest'] or r['occupied'] or c._tasks['running']:
            return 'C02/work-never-released/' + OPS[op]
    return None


def step_tag(p1, p2, x, y):
    return _step(PIN['p0'], p1, p2, PIN['op'], x, y, 5)


def step(p1: int, p2: int, x: int, y: int) -> bool:
    """
    pre: 0 <= p1 <= 5 and 0 <= p2 <= 5
    pre: 0 <= x <= 2 and 0 <= y <= 2
    post: _
    """
    t = step_tag(p1, p2, x, y)
    wit.note(t, p1=p1, p2=p2, x=x, y=y)
    return wit.verdict(t)


def warmup():
    pass
    history_tag([(0, 1, 0), (3, 0, 0), (4, 0, 0)])
    _step(0, 1, 3, 3, 0, 0, 1)


def shards(tier, prop):
    out = []
    R = range(5)
    if tier == 'quick':
        for o1 in R:
            for o2 in R:
                for o3 in R:
                    out.append({'fn': 'hist3', 'pin': {'o1': o1, 'o2': o2, 'o3': o3}, 'cond_timeout': 120, 'path_timeout': 20})
    else:
        for o1 in (0, 2, 3):            # a history that starts with release/advance on the initial state is a depth-3 history
            for o2 in R:
                for o3 in R:
                    for o4 in R:
                        if all(o in (0, 3) for o in (o1, o2, o3, o4)):
                            # only provision/allocate: 9^4 argument vectors, measured not to exhaust in 600 s -> first argument pair pinned
                            for x1 in range(3):
                                for y1 in range(3):
                                    out.append({'fn': 'hist4', 'pin': {'o1': o1, 'o2': o2, 'o3': o3, 'o4': o4, 'x1': x1, 'y1': y1}, 'cond_timeout': 600, 'path_timeout': 30})
                            continue
                        out.append({'fn': 'hist4', 'pin': {'o1': o1, 'o2': o2, 'o3': o3, 'o4': o4}, 'cond_timeout': 600, 'path_timeout': 30})
    for op in range(4):
        for p0 in range(6):
            out.append({'fn': 'step', 'pin': {'op': op, 'p0': p0}, 'cond_timeout': 120 if tier == 'quick' else 600, 'path_timeout': 20})
    out.append({'fn': 'hist3', 'pin': {'o1': 0, 'o2': 3, 'o3': 4}, 'cond_timeout': 30, 'twin': True})
    return out
