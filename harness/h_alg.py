"""alg_round - one call of each shipped scheduling algorithm's run() on a symbolic cluster state and a 3-task symbolic
plan (shared by C01, C03, C04, C09, C17).  Pools by direct construction of a consistent state (pool vector symbolic),
DAG bits, task statuses (restricted to valid states), planned machines and ready-set membership are solver variables."""
import simpy, networkx as nx
from vk import wit
from vk.kit import *
from vk.wit import pick
from topsim.core.planner import WorkflowPlan, WorkflowStatus
from topsim.user.schedule.batch_allocation import BatchProcessing
from topsim.user.schedule.queue_allocation import QueueProcessing
from topsim.user.schedule.dynamic_plan import DynamicSchedulingFromPlan
from topsim.user.schedule.greedy import GreedySchedulingFromPlan

PIN = {}
N = 3
ALGS = [lambda: BatchProcessing(min_resources_per_workflow=1), QueueProcessing, DynamicSchedulingFromPlan, GreedySchedulingFromPlan]
NAMES = ['BatchProcessing', 'QueueProcessing', 'DynamicSchedulingFromPlan', 'GreedySchedulingFromPlan']
FUNCTIONS = [BatchProcessing.run, QueueProcessing.run, DynamicSchedulingFromPlan.run, GreedySchedulingFromPlan.run,
             GreedySchedulingFromPlan._attempt_machine_allocation, BatchProcessing._provision_resources, Cluster.is_task_finished,
             Cluster.is_occupied, Cluster.get_idle_resources, Cluster.get_available_resources]
META = {
    'bounds': {'alg_round.machines': 3, 'alg_round.pools': '5^3 pool vectors (available, ingest, busy, reserved for own / other observation)',
               'alg_round.tasks': '3, every DAG over them (3 edge bits), statuses unscheduled/scheduled/finished restricted to valid states',
               'alg_round.planned machines / ready-set membership': 'symbolic', 'alg_round.est order': 'pinned per shard'},
    'outside_bounds': ['rounds with more than 3 tasks / 3 machines', 'an existing (non-empty) schedule handed to run()'],
    'stubs': ['cluster state constructed directly (consistent pools/counters), not by history'], 'assumptions': [],
}


def build(pools, edges, st, planned, inpool, ests):
    planned = [wit.concretize(q, 0, 2) for q in planned]       # str() of a symbolic int (machine ids) would fork per digit
    env, c = new_cluster(N, bws=[10, 40, 10, 20][:N], start=False)      # unequal bandwidths, not in descending order
    r = c._resources
    r['available'] = []
    for i, m in enumerate(c.machines):
        p = pools[i]
        if p == 0:
            r['available'].append(m)
        elif p == 1:
            r['ingest'].append(m)
        elif p == 2:
            r['occupied'].append(m)
        elif p == 3:
            r['idle'].setdefault('A', []).append(m)
        else:
            r['idle'].setdefault('B', []).append(m)
    c.num_provisioned_obs = len(r['idle'])
    e01, e02, e12 = edges
    preds = {0: [], 1: [0] if e01 else [], 2: ([0] if e02 else []) + ([1] if e12 else [])}
    ids = [f"A_0_{i}" for i in range(3)]
    tasks = []
    for i in range(3):
        t = Task(ids[i], ests[i], ests[i] + 2, f"m{planned[i]}", [ids[p] for p in preds[i]], 10, 0, {ids[p]: 0 for p in preds[i]}, None, gid=i)
        t.task_status = pick([TaskStatus.UNSCHEDULED, TaskStatus.SCHEDULED, TaskStatus.FINISHED], st[i])
        tasks.append(t)
    g = nx.DiGraph()
    for t in tasks:
        g.add_node(t)
    for i in range(3):
        for p in preds[i]:
            g.add_edge(tasks[p], tasks[i], transfer_data=0)
    for t in tasks:
        if t.task_status is TaskStatus.FINISHED:
            c._tasks['finished'][t] = True
        elif t.task_status is TaskStatus.SCHEDULED:
            c._tasks['running'].append(t)
            c._tasks['finished'][t] = False
    live = [t for t in tasks if t.task_status is not TaskStatus.FINISHED]
    plan = WorkflowPlan('A', 0, 10, live, ids, WorkflowStatus.SCHEDULED, 1, g)
    plan.ast = 0
    pool = set(t for i, t in enumerate(tasks) if inpool[i] and t.task_status is not TaskStatus.FINISHED)
    return env, c, plan, tasks, preds, pool


def valid(e01, e02, e12, s0, s1, s2):
    preds = {0: [], 1: [0] if e01 else [], 2: ([0] if e02 else []) + ([1] if e12 else [])}
    st = [s0, s1, s2]
    for i in range(3):
        if st[i] != 0:
            for p in preds[i]:
                if st[p] != 2:
                    return False
    return True


def round_tag(alg, pools, edges, st, planned, inpool, ests):
    wit.begin()
    wit.POINTS['entered'] = wit.POINTS.get('entered', 0) + 1
    env, c, plan, tasks, preds, pool = build(pools, edges, st, planned, inpool, ests)
    a = ALGS[alg]()
    avail_before = [m.id for m in c.get_available_resources()]
    try:
        allocs, status, pool2 = a.run(c, 0, plan, {}, pool)
    except Exception as ex:
        return f'C05/algorithm-raises/{type(ex).__name__}/{NAMES[alg]}'
    own = [m.id for m in c.get_idle_resources('A')]
    used = []
    for t, m in allocs.items():
        wit.reach('proposal')
        i = t.graph_id
        if t.task_status is not TaskStatus.UNSCHEDULED:
            return f'C04/proposes-task-that-is-not-unscheduled/{NAMES[alg]}'
        for p in preds[i]:
            if tasks[p].task_status is not TaskStatus.FINISHED:
                return f'C03/proposes-task-before-predecessor-finished/{NAMES[alg]}'
        if m.id in used:
            return f'C01/same-machine-proposed-twice/{NAMES[alg]}'
        used.append(m.id)
        if alg == 0:
            if m.id not in own:
                return 'C09/proposal-outside-own-reservation'
        elif m.id not in avail_before:
            return f'C01/proposes-machine-that-is-not-free/{NAMES[alg]}'
        if alg == 2 and m.id != f"m{planned[i]}":
            return 'C17/proposal-differs-from-planned-machine'
    if alg == 2:
        for i, t in enumerate(tasks):
            if t in allocs and f"m{planned[i]}" not in avail_before:
                return 'C17/task-proposed-although-planned-machine-busy'
    return None


def rnd_tag(p0, p1, p2, e01, e02, e12, s0, s1, s2, q0, q1, q2, i0, i1, i2):
    return round_tag(PIN['alg'], (p0, p1, p2), (e01, e02, e12), (s0, s1, s2), (q0, q1, q2), (i0, i1, i2), PIN.get('ests', (0, 1, 2)))


def rnd(p0: int, p1: int, p2: int, e01: bool, e02: bool, e12: bool, s0: int, s1: int, s2: int, q0: int, q1: int, q2: int,
        i0: bool, i1: bool, i2: bool) -> bool:
    '''
    pre: 0 <= p1 <= 4 and 0 <= p2 <= 4 and p0 == pinned('p0') and (pinned('p1') is None or p1 == pinned('p1')) and (pinned('p2') is None or p2 == pinned('p2'))
    pre: 0 <= s0 <= 2 and 0 <= s1 <= 2 and 0 <= s2 <= 2
    pre: 0 <= q0 <= 2 and 0 <= q1 <= 2 and 0 <= q2 <= 2
    pre: quick_statuses(s0, s1, s2) and relevant(q0, q1, q2, i0, i1, i2) and valid(e01, e02, e12, s0, s1, s2)
    post: _
    '''
    t = rnd_tag(p0, p1, p2, e01, e02, e12, s0, s1, s2, q0, q1, q2, i0, i1, i2)
    t = t if (t is None or t.split('/')[0] in PIN.get('props', ['C01', 'C03', 'C04', 'C05', 'C09', 'C17'])) else None
    wit.note(t, p0=p0, p1=p1, p2=p2, e01=e01, e02=e02, e12=e12, s0=s0, s1=s1, s2=s2, q0=q0, q1=q1, q2=q2, i0=i0, i1=i1, i2=i2)
    return wit.verdict(t)


def pinned(k):
    return PIN.get(k)


def relevant(q0, q1, q2, i0, i1, i2):
    """inputs an algorithm does not read are pinned (no duplicate paths): planned machines matter to the plan-following
    algorithms only, ready-set membership to the pool-based ones only"""
    a = PIN['alg']
    if a in (0, 1) and (q0 != 0 or q1 != 0 or q2 != 0):
        return False
    if a == 3 and not (i0 and i1 and i2):
        return False
    if PIN.get('empty_pool'):
        if a == 2 and (q1 != q2):
            return False              # plan-following, empty ready set: two of the three planned machines coincide (keeps the shard small)
        return not (i0 or i1 or i2)   # the ready set handed to run() is empty: the algorithm re-seeds it from the plan's roots
    if PIN.get('quick') and not PIN.get('free_i2') and not i2:
        return False                 # quick tier: third task always in the ready set (thorough: symbolic)
    if PIN.get('quick') and a == 2 and not (i0 and i1):
        return False                 # quick tier, plan-following: whole plan in the ready set (the planned machines are the symbolic part)
    return True


def quick_statuses(s0, s1, s2):
    if PIN.get('empty_pool'):
        return s2 == 0 and (PIN['alg'] != 2 or s1 != 1)
    """quick tier, plan-following algorithms: only the first task may already be finished (thorough: all valid status vectors)"""
    if PIN.get('quick') and PIN['alg'] in (2, 3):
        return s1 == 0 and s2 == 0 and s0 != 1
    if PIN.get('quick'):
        return s2 == 0
    return True


_rt = rnd_tag


def rnd_tag(p0, p1, p2, e01, e02, e12, s0, s1, s2, q0, q1, q2, i0, i1, i2):    # noqa: F811
    t = _rt(p0, p1, p2, e01, e02, e12, s0, s1, s2, q0, q1, q2, i0, i1, i2)
    return t if (t is None or t.split('/')[0] in PIN.get('props', ['C01', 'C03', 'C04', 'C05', 'C09', 'C17'])) else None


def warmup():
    for a in range(4):
        round_tag(a, (0, 3, 4), (True, True, True), (2, 0, 0), (0, 1, 2), (True, True, True), (0, 1, 2))


QUICK_VECTORS = [(0, 0, 0), (0, 0, 2), (0, 3, 4), (1, 0, 0), (3, 3, 0), (2, 2, 2), (0, 1, 3), (4, 0, 0)]


def shards(tier, prop):
    algs = {'C17': [2], 'C09': [0], 'C01': [0, 1, 2, 3], 'C03': [0, 1, 2, 3], 'C04': [0, 1, 2, 3], 'C05': [3]}[prop]
    out = []
    if tier == 'quick':
        vecs = QUICK_VECTORS if len(algs) <= 2 else QUICK_VECTORS[:3]
        for a in algs:
            for (p0, p1, p2) in vecs:
                out.append({'fn': 'rnd', 'pin': {'alg': a, 'p0': p0, 'p1': p1, 'p2': p2, 'props': [prop], 'quick': True}, 'cond_timeout': 200, 'path_timeout': 30})
            if a in (0, 1, 2):
                out.append({'fn': 'rnd', 'pin': {'alg': a, 'p0': 0, 'p1': 0, 'p2': 2, 'props': [prop], 'empty_pool': True}, 'cond_timeout': 200, 'path_timeout': 30})
    else:
        # thorough: every pool vector (first machine pinned per shard, the other two symbolic), third task's ready-set
        # membership symbolic; the status restriction of the quick tier is kept (see quick_statuses)
        p0s = range(5) if prop in ('C01', 'C17', 'C09', 'C05') else (0, 3)
        for a in algs:
            for p0 in p0s:
                if a == 2:
                    # the plan-following policy forks most (planned machine x pool): second machine pinned as well
                    # (measured: one p0 shard does not exhaust in 2400 s / 19k paths)
                    for p1 in range(5):
                        out.append({'fn': 'rnd', 'pin': {'alg': a, 'p0': p0, 'p1': p1, 'props': [prop], 'quick': True, 'free_i2': True, 'free_pools': True},
                                    'cond_timeout': 900, 'path_timeout': 30})
                    continue
                out.append({'fn': 'rnd', 'pin': {'alg': a, 'p0': p0, 'props': [prop], 'quick': True, 'free_i2': True, 'free_pools': True},
                            'cond_timeout': 1800, 'path_timeout': 30})
            if a in (0, 1, 2):
                out.append({'fn': 'rnd', 'pin': {'alg': a, 'p0': 0, 'p1': 0, 'p2': 2, 'props': [prop], 'empty_pool': True}, 'cond_timeout': 600, 'path_timeout': 30})
    out.append({'fn': 'rnd', 'pin': {'alg': algs[0], 'p0': 0, 'p1': 0, 'p2': 0, 'props': [prop], 'quick': True}, 'cond_timeout': 40, 'twin': True})
    return out
