"""C16 - timestep units rescale every time-dependent quantity consistently.
H1 (Engine A): real Config.parse_cluster_config / parse_buffer_config on a Config whose JSON-derived dicts hold
   symbolic values: unit = symbolic str or symbolic int, all rates/speeds/capacities unbounded ints.
H2 (Engine A): real parse_instrument_config with the unit from {seconds, minutes, hours, custom int, other spelling}
   and start/duration whole multiples of the unit (case-split small ranges), rate symbolic.
S1 (Engine B): the three multiplier ladders sliced from the current source are equal to the specification for every
   unit (string case, integer case); the Observation(...) argument expressions divide start/duration and multiply
   the rate by that same multiplier; derived invariants (volume, rate-limit comparison) as solver queries."""
import ast, json, os, inspect, textwrap
import z3
from vk import wit
from vk import smtkit as K
from vk.wit import concretize as cz, pick
from topsim.core.config import Config
from topsim.core.instrument import Observation

PIN = {}
FUNCTIONS = [Config.parse_cluster_config, Config.parse_instrument_config, Config.parse_buffer_config, Config.__init__]
META = {
    'bounds': {'C16.unit': 'symbolic str (len <= 8) or symbolic int >= 1', 'C16.cluster/buffer numbers': 'unbounded ints (2 machines); every section parsed twice from one Config object, then once more after the unit attribute was changed',
               'C16.instrument (H2)': 'start, duration = unit x (0..30 / 1..30); units seconds, minutes, hours, misspelt, custom 3, 7, 49, 300, 600 (case-split, native)',
               'C16.instrument (S1)': 'unbounded ints, rational division (whole multiples make it exact: lemma L3)'},
    'outside_bounds': ['boolean or float units', 'non-integer rates (round() of a float product)', 'starts/durations that are not whole multiples of the unit'],
    'stubs': ['E5: a skeleton JSON file is parsed by the real Config.__init__, then its numbers are overwritten by symbolic values'],
    'assumptions': ['lemma L3 (b | a => float(a/b) == a//b) beyond the solver-checked width'],
}
WORK = '/verif/.work/c16'


def skeleton():
    os.makedirs(WORK, exist_ok=True)
    p = os.path.join(WORK, 'cfg.json')
    if not os.path.exists(p):
        cfg = {'instrument': {'telescope': {'total_arrays': 4, 'max_ingest_resources': 2,
                                            'pipelines': {'o1': {'workflow': 'wf.json', 'ingest_demand': 2}},
                                            'observations': [dict(name='o1', start=0, duration=1, instrument_demand=3, data_product_rate=1)]}},
               'cluster': {'header': {}, 'system': {'resources': {'m0': {'flops': 1, 'compute_bandwidth': 1}, 'm1': {'flops': 1, 'compute_bandwidth': 1}},
                                                    'system_bandwidth': 1}},
               'buffer': {'hot': {'capacity': 1, 'max_ingest_rate': 1}, 'cold': {'capacity': 1, 'max_data_rate': 1}}, 'timestep': 'seconds'}
        tmp = p + f'.{os.getpid()}'
        json.dump(cfg, open(tmp, 'w'))
        os.replace(tmp, p)
    return p


def spec_k(unit):
    if isinstance(unit, str):
        return 60 if unit == 'minutes' else (3600 if unit == 'hours' else 1)
    return unit


def cb_tag(unit, f0, f1, b0, b1, sysbw, hcap, hrate, ccap, crate):
    wit.begin()
    c = Config(skeleton())
    c.timestep_unit = unit
    res = c.cluster['system']['resources']
    res['m0'].update(flops=f0, compute_bandwidth=b0)
    res['m1'].update(flops=f1, compute_bandwidth=b1)
    c.cluster['system']['system_bandwidth'] = sysbw
    c.buffer['hot'].update(capacity=hcap, max_ingest_rate=hrate)
    c.buffer['cold'].update(capacity=ccap, max_data_rate=crate)
    k = spec_k(unit)
    if k != 1:
        wit.reach('coarser-unit')
    machines, bw = c.parse_cluster_config()
    if [m.id for m in machines] != ['m0', 'm1']:
        return 'C16/machines-differ'
    for m, f, b in zip(machines, (f0, f1), (b0, b1)):
        if m.cpu != f * k:
            return 'C16/machine-speed-not-scaled-by-unit'
        if m.bandwidth != b * k:
            return 'C16/machine-bandwidth-not-scaled-by-unit'
    if bw != sysbw * k:
        return 'C16/system-bandwidth-not-scaled-by-unit'
    hot, cold = c.parse_buffer_config()
    if hot[0].total_capacity != hcap or cold[0].total_capacity != ccap or hot[0].current_capacity != hcap or cold[0].current_capacity != ccap:
        return 'C16/buffer-capacity-scaled'
    if hot[0].max_ingest_data_rate != hrate * k:
        return 'C16/hot-ingest-rate-not-scaled-by-unit'
    if cold[0].max_data_rate != crate * k:
        return 'C16/cold-data-rate-not-scaled-by-unit'
    # the same Config object read again (a second Cluster / Buffer built from it) must give the same quantities
    machines2, bw2 = c.parse_cluster_config()
    for m, m2 in zip(machines, machines2):
        if m2.cpu != m.cpu or m2.bandwidth != m.bandwidth:
            return 'C16/second-parse-of-the-cluster-section-scales-again'
    if bw2 != bw or len(machines2) != len(machines):
        return 'C16/second-parse-of-the-cluster-section-scales-again'
    hot2, cold2 = c.parse_buffer_config()
    if (hot2[0].max_ingest_data_rate, cold2[0].max_data_rate, hot2[0].total_capacity, cold2[0].total_capacity) != \
            (hot[0].max_ingest_data_rate, cold[0].max_data_rate, hot[0].total_capacity, cold[0].total_capacity):
        return 'C16/second-parse-of-the-buffer-section-scales-again'
    # the unit of the same Config object is changed afterwards (timestep_unit is a public attribute): every later parse
    # uses the factor of the unit in force at that moment
    unit3 = 'hours' if k != 3600 else 'minutes'
    k3 = 3600 if k != 3600 else 60
    c.timestep_unit = unit3
    machines3, bw3 = c.parse_cluster_config()
    hot3, cold3 = c.parse_buffer_config()
    if machines3[0].cpu != f0 * k3 or machines3[1].bandwidth != b1 * k3 or bw3 != sysbw * k3:
        return 'C16/cluster-section-keeps-the-factor-of-an-earlier-unit'
    if hot3[0].max_ingest_data_rate != hrate * k3 or cold3[0].max_data_rate != crate * k3 or hot3[0].total_capacity != hcap:
        return 'C16/buffer-section-keeps-the-factor-of-an-earlier-unit'
    return None


def cb_str_tag(unit, f0, f1, b0, b1, sysbw, hcap, hrate, ccap, crate):
    return cb_tag(unit, f0, f1, b0, b1, sysbw, hcap, hrate, ccap, crate)


def cb_str(unit: str, f0: int, f1: int, b0: int, b1: int, sysbw: int, hcap: int, hrate: int, ccap: int, crate: int) -> bool:
    """
    pre: len(unit) <= 8
    post: _
    """
    t = cb_str_tag(unit, f0, f1, b0, b1, sysbw, hcap, hrate, ccap, crate)
    wit.note(t, unit=unit, f0=f0, f1=f1, b0=b0, b1=b1, sysbw=sysbw, hcap=hcap, hrate=hrate, ccap=ccap, crate=crate)
    return wit.verdict(t)


def cb_int_tag(unit, f0, f1, b0, b1, sysbw, hcap, hrate, ccap, crate):
    return cb_tag(unit, f0, f1, b0, b1, sysbw, hcap, hrate, ccap, crate)


def cb_int(unit: int, f0: int, f1: int, b0: int, b1: int, sysbw: int, hcap: int, hrate: int, ccap: int, crate: int) -> bool:
    """
    pre: unit >= 1
    post: _
    """
    t = cb_int_tag(unit, f0, f1, b0, b1, sysbw, hcap, hrate, ccap, crate)
    wit.note(t, unit=unit, f0=f0, f1=f1, b0=b0, b1=b1, sysbw=sysbw, hcap=hcap, hrate=hrate, ccap=ccap, crate=crate)
    return wit.verdict(t)


UNITS = ['seconds', 'minutes', 'hours', 7, 'minute', 49, 300, 600, 3, 'Minutes', 'HOURS', ' hours']     # the last three: not the documented spellings -> factor 1 everywhere


def instr_tag(uk, s, d, rate, demand, ingest):
    wit.begin()
    uk, s, d, rate = cz(uk, 0, len(UNITS) - 1), cz(s, 0, 30), cz(d, 1, 30), cz(rate, 0, 4) * 37     # round() of a symbolic product is not decidable here
    demand, ingest = cz(demand, 1, 3), cz(ingest, 1, 2)
    return wit.native(_instr, uk, s, d, rate, demand, ingest)


def pinned_unit():
    return PIN.get('unit', 1)


def _instr(uk, s, d, rate, demand, ingest):
    unit = UNITS[uk]
    k = spec_k(unit)
    c = Config(skeleton())
    c.timestep_unit = unit
    o = c.instrument['telescope']['observations'][0]
    o.update(start=s * k, duration=d * k, data_product_rate=rate, instrument_demand=demand)
    c.instrument['telescope']['pipelines']['o1']['ingest_demand'] = ingest
    total, pipelines, obs, max_ingest = c.parse_instrument_config('telescope')
    ob = obs[0]
    if k != 1:
        wit.reach('coarser-unit')
    if ob.est != s or ob.duration != d:
        return 'C16/start-or-duration-not-divided-by-unit'
    if ob.ingest_data_rate != rate * k:
        return 'C16/data-rate-not-multiplied-by-unit'
    if ob.demand != demand or pipelines['o1']['ingest_demand'] != ingest or total != 4 or max_ingest != 2:
        return 'C16/count-or-demand-scaled'
    if ob.ingest_data_rate * ob.duration != rate * d * k:
        return 'C16/data-volume-depends-on-unit'
    total2, pipelines2, obs2, max_ingest2 = c.parse_instrument_config('telescope')
    if (obs2[0].est, obs2[0].duration, obs2[0].ingest_data_rate, obs2[0].demand, total2, max_ingest2) != (ob.est, ob.duration, ob.ingest_data_rate, ob.demand, total, max_ingest):
        return 'C16/second-parse-of-the-instrument-section-scales-again'
    c.timestep_unit = 'seconds'
    total3, pipelines3, obs3, max_ingest3 = c.parse_instrument_config('telescope')
    if (obs3[0].est, obs3[0].duration, obs3[0].ingest_data_rate) != (s * k, d * k, rate):
        return 'C16/instrument-section-keeps-the-factor-of-an-earlier-unit'
    return None


def instr(uk: int, s: int, d: int, rate: int, demand: int, ingest: int) -> bool:
    """
    pre: uk == pinned_unit() and 0 <= s <= 30 and 1 <= d <= 30 and rate == (s + d) % 5 and demand == 1 + s % 3 and ingest == 1 + d % 2
    post: _
    """
    t = instr_tag(uk, s, d, rate, demand, ingest)
    wit.note(t, uk=uk, s=s, d=d, rate=rate, demand=demand, ingest=ingest)
    return wit.verdict(t)


# ---------------------------------------------------------------------------------------------- Engine B
def slice_assigning(fn, var):
    tree = ast.parse(textwrap.dedent(inspect.getsource(fn))).body[0]
    out = []
    for st in tree.body:
        names = {n.id for n in ast.walk(st) if isinstance(n, ast.Name) and isinstance(n.ctx, ast.Store)}
        if var in names:
            out.append(st)
    return out


def ladder_term(fn, unit):
    ex = K.Exec({})
    st = K.State({'self': K.Rec(timestep_unit=unit)}, [], z3.IntVal(0), [])
    sl = slice_assigning(fn, 'timestep_multiplier')
    if not sl:
        raise K.UnsupportedSyntax(f'{fn.__qualname__}: no statement assigns timestep_multiplier')
    res = ex.block(sl, st)
    term = None
    for (s, o) in res:
        cond = z3.And(*s.pc) if s.pc else z3.BoolVal(True)
        v = K._int(s.env['timestep_multiplier'])
        term = v if term is None else z3.If(cond, v, term)
    return term, len(res), ex.queries


def observation_args(k):
    """argument expressions of the Observation(...) call in parse_instrument_config, evaluated with symbolic fields"""
    tree = ast.parse(textwrap.dedent(inspect.getsource(Config.parse_instrument_config))).body[0]
    calls = [n for n in ast.walk(tree) if isinstance(n, ast.Call) and isinstance(n.func, ast.Name) and n.func.id == 'Observation']
    if len(calls) != 1:
        raise K.UnsupportedSyntax('expected exactly one Observation(...) call in parse_instrument_config')
    start, dur, rate, dem = z3.Ints('start duration rate demand')
    obs = {'start': start, 'duration': dur, 'data_product_rate': rate, 'instrument_demand': dem, 'name': 'o1'}
    ex = K.Exec({})
    st = K.State({'observation': obs, 'timestep_multiplier': k, 'name': 'o1'}, [], z3.IntVal(0), [])
    out = {}
    for kw in calls[0].keywords:
        if kw.arg in ('start', 'duration', 'demand', 'data_rate'):
            out[kw.arg] = ex.ev(kw.value, st)
    if sorted(out) != ['data_rate', 'demand', 'duration', 'start']:
        raise K.UnsupportedSyntax(f'Observation(...) keywords changed: {sorted(out)}')
    return out, dict(start=start, duration=dur, rate=rate, demand=dem), ex


def s1(spec):
    ob = K.Obligations()
    paths = queries = 0
    lem = set()
    for sort_name, unit in (('String', z3.String('u')), ('Int', z3.Int('k'))):
        if sort_name == 'String':
            want = z3.If(unit == z3.StringVal('minutes'), 60, z3.If(unit == z3.StringVal('hours'), 3600, 1))
            assume = []
        else:
            want, assume = unit, [unit >= 1]
        for f in (Config.parse_cluster_config, Config.parse_instrument_config, Config.parse_buffer_config):
            term, n, q = K.encoding(ladder_term, f, unit)
            paths += n
            queries += q
            ob.add(f'{f.__name__}: multiplier ladder == spec for every {sort_name} unit', assume, term != want)
    k = z3.Int('k')
    args, v, ex = K.encoding(observation_args, k)
    lem |= ex.lemmas
    A = [k >= 1, v['start'] >= 0, v['duration'] >= 1, v['rate'] >= 0]
    for name in ('start', 'duration'):
        fr = args[name]
        if not isinstance(fr, K.Frac):
            ob.add(f'Observation {name} is divided by the unit', A, z3.BoolVal(True))
        else:
            ob.add(f'Observation {name} == field / multiplier', A, z3.Or(fr.n != v[name], fr.d != k), ['L3/L4'])
    ob.add('Observation data_rate == rate * multiplier', A, K._int(args['data_rate']) != v['rate'] * k)
    ob.add('Observation demand unscaled', A, K._int(args['demand']) != v['demand'])
    # derived invariants over those terms (whole multiples: duration = k * d)
    d = z3.Int('d')
    if isinstance(args['duration'], K.Frac):
        ob.add('data volume independent of the unit', A + [v['duration'] == k * d, d >= 1],
               K._int(args['data_rate']) * args['duration'].n != v['rate'] * v['duration'] * args['duration'].d)
    mx = z3.Int('max_rate')
    ob.add('rate-limit comparison independent of the unit', A + [mx >= 0], (K._int(args['data_rate']) <= mx * k) != (v['rate'] <= mx))
    res = ob.discharge()
    bad = [r for r in res if r['z3'] != 'unsat']
    out = {'paths': paths + 4, 'queries': queries + len(res), 'solver_s': round(sum(r['z3_s'] for r in res), 2), 'obligations': len(res),
           'discharged': sum(1 for r in res if r['z3'] == 'unsat'),
           'detail': {'cvc5_agree': sum(1 for r in res if r.get('cvc5') == 'unsat'), 'cvc5_no_answer': [r['name'] for r in res if r.get('cvc5') not in ('unsat', None)],
                      'lemmas_used': sorted(lem)},
           'witnesses': [{'obligation': r['name'], 'z3': r['z3'], 'cvc5': r.get('cvc5')} for r in res[:5]]}
    # translator validation on the repo's own test constants: units seconds / minutes / hours / 7
    nval = 0
    for unit in ('seconds', 'minutes', 'hours', 7, 'other'):
        for f in (Config.parse_cluster_config, Config.parse_instrument_config, Config.parse_buffer_config):
            sym = z3.String('u') if isinstance(unit, str) else z3.Int('k')
            term, _, _ = ladder_term(f, sym)
            val = z3.simplify(z3.substitute(term, (sym, z3.StringVal(unit) if isinstance(unit, str) else z3.IntVal(unit)))).as_long()
            nval += 1
            if val != spec_k(unit):
                out['status'] = 'ERROR'
                out['error'] = f'translator validation: ladder of {f.__name__} gives {val} for {unit!r}'
                return out
    out['validated'] = nval
    if any(r.get('cvc5') == 'sat' for r in res if r['z3'] == 'unsat'):
        out['status'] = 'ERROR'
        out['error'] = 'solver disagreement'
    elif [r for r in bad if r['z3'] == 'sat']:
        r = [r for r in bad if r['z3'] == 'sat'][0]
        out['status'] = 'REFUTED'
        out['cex_message'] = f"{r['name']}: {r['model']}"
        m = r['model']
        u = m.get('u')
        out['cex'] = {'unit': (u.strip('"') if u is not None else int(m.get('k', '1'))), 'start': int(m.get('start', '0')) , 'duration': int(m.get('duration', '1')),
                      'rate': int(m.get('rate', '1'))}
    elif bad:
        out['status'] = 'INCOMPLETE'
    else:
        out['status'] = 'CONFIRMED'
    return out


def s1_tag(unit, start=0, duration=1, rate=1):
    """concrete replay of an Engine-B model on the real parsers"""
    k = spec_k(unit)
    t = cb_tag(unit, 3, 5, 7, 11, 13, 17, 19, 23, 29)
    if t:
        return t
    c = Config(skeleton())
    c.timestep_unit = unit
    o = c.instrument['telescope']['observations'][0]
    o.update(start=start * k, duration=max(duration, 1) * k, data_product_rate=rate)
    total, pipelines, obs, max_ingest = c.parse_instrument_config('telescope')
    if obs[0].est != start or obs[0].duration != max(duration, 1):
        return 'C16/start-or-duration-not-divided-by-unit'
    if obs[0].ingest_data_rate != rate * k:
        return 'C16/data-rate-not-multiplied-by-unit'
    return None


def warmup():
    cb_tag('minutes', 1, 2, 3, 4, 5, 6, 7, 8, 9)
    instr_tag(1, 1, 2, 5, 1, 1)


def shards(tier, prop):
    T = 150 if tier == 'quick' else 900
    from vk import lemmas
    out = [{'fn': 'cb_str', 'cond_timeout': T}, {'fn': 'cb_int', 'cond_timeout': T}] + [{'fn': 'instr', 'pin': {'unit': u}, 'cond_timeout': T} for u in range(len(UNITS))] + [
           {'kind': 'py', 'fn': 's1', 'cond_timeout': 200, 'name': 'smt:Config.ladders+Observation-args'},
           {'fn': 'cb_str', 'cond_timeout': 40, 'twin': True}, {'fn': 'instr', 'pin': {'unit': 1}, 'cond_timeout': 40, 'twin': True}]
    return out + lemmas.jobs(['L3'], tier)
