"""C06 (Engine B): Task.do_work / calculate_runtime / update_allocation executed symbolically from their current
source into z3 integer terms; obligations over UNBOUNDED integers, float division cut by lemma L1."""
import ast, random
import simpy, z3
from vk import smtkit as K
from vk import wit
from topsim.core.task import Task, TaskStatus
from topsim.core.machine import Machine
from topsim.core.delay import DelayModel

PIN = {}
FUNCTIONS = [Task.do_work, Task.calculate_runtime, Task._calc_task_delay, Task.update_allocation]
META = {
    'bounds': {'C06.smt': 'flops, data >= 0, cpu, bw >= 1, plan duration >= 0, injected delay >= 0: unbounded mathematical integers',
               'C06.lemma_L1': 'int(a/b) == a//b solver-checked bit-precisely for operands < 2^8 (quick) / 2^11 (thorough); argued to 2^26; not claimed above'},
    'outside_bounds': ['binary64 rounding of flops/cpu for operands >= 2^26', 'non-integer demands or speeds'],
    'stubs': ['E10: delay model replaced by generate_delay(r) = r + extra, extra >= 0 symbolic'],
    'assumptions': ['lemma L1 (float quotient truncation == integer floor division) beyond the solver-checked width'],
}


class _DelayRec(K.Rec):
    pass


def encode(with_delay=True, via_scheduler=False):
    """-> (paths, vars, exec) of the real do_work"""
    M = K.methods_of(Task)
    flops, data, cpu, bw, dur0, eft, extra = z3.Ints('flops data cpu bw dur0 eft extra')
    ex = K.Exec(M, {'TaskStatus': K.Rec(RUNNING='RUNNING', FINISHED='FINISHED'), 'logger': K.Rec()})
    delay = K.Rec(generate_delay=lambda r: r + extra) if with_delay else None
    task = K.Rec(flops=flops, task_data=data, duration=dur0, eft=eft, delay=delay, delay_flag=z3.BoolVal(False),
                 delay_offset=z3.IntVal(0), task_status=None, ast=z3.IntVal(-1), aft=z3.IntVal(-1), id='t', io={})
    machine = K.Rec(cpu=cpu, bandwidth=bw)
    env = K.Rec(now=z3.IntVal(0))
    task.set('allocated_machine_id', 'planned-elsewhere')
    if via_scheduler:
        # the scheduler path: Task.update_allocation(machine) first, then do_work on that machine
        paths = []
        for (s, o) in ex.run(M['update_allocation'], [task, machine]):
            if o.kind == 'raise':
                paths.append((s, o))
                continue
            st = K.State({'self': s.env['self'], 'env': K.Rec(now=z3.IntVal(0)), 'machine': s.env['machine'], 'predecessor_allocations': None},
                         list(s.pc), z3.IntVal(0), [])
            paths += ex.block(M['do_work'].body, st)
    else:
        paths = ex.run(M['do_work'], [task, env, machine, None])
    return paths, dict(flops=flops, data=data, cpu=cpu, bw=bw, dur0=dur0, eft=eft, extra=extra), ex


def nominal(v):
    f, d = v['flops'] / v['cpu'], v['data'] / v['bw']
    return z3.If(z3.Or(v['flops'] > 0, v['data'] > 0), z3.If(f >= d, f, d), v['dur0'])


def assumptions(v):
    return [v['flops'] >= 0, v['data'] >= 0, v['cpu'] >= 1, v['bw'] >= 1, v['dur0'] >= 0, v['extra'] >= 0, v['eft'] >= 0]


def runtime_term(paths):
    term = None
    for (s, o) in paths:
        t = s.env['self']
        r = t.get('aft') - t.get('ast')
        cond = z3.And(*s.pc) if s.pc else z3.BoolVal(True)
        term = r if term is None else z3.If(cond, r, term)
    return term


def s1(spec):
    paths, v, ex = K.encoding(encode)
    ob = K.Obligations()
    A = assumptions(v)
    nom = nominal(v)
    lo = z3.If(nom + v['extra'] >= 1, nom + v['extra'], 1)
    hi = z3.If(nom >= 1, nom, 1) + v['extra']
    for k, (s, o) in enumerate(paths):
        if o.kind != 'fall':
            ob.add(f'do_work path {k} ends by {o.kind}', A + s.pc, z3.BoolVal(True), ex.lemmas)   # reachable raise/return = violation
            continue
        t = s.env['self']
        run = t.get('aft') - t.get('ast')
        ob.add(f'path{k}: runtime >= max(1, nominal+extra)', A + s.pc, z3.Not(run >= lo), ex.lemmas)
        ob.add(f'path{k}: runtime <= max(1, nominal)+extra', A + s.pc, z3.Not(run <= hi), ex.lemmas)
        ob.add(f'path{k}: nominal>=1 => runtime == nominal+extra', A + s.pc + [nom >= 1], run != nom + v['extra'], ex.lemmas)
        ob.add(f'path{k}: runtime >= 1', A + s.pc, z3.Not(run >= 1), ex.lemmas)
        ob.add(f'path{k}: do_work exits at aft-1', A + s.pc, s.clock != t.get('aft') - 1, ex.lemmas)
        ob.add(f'path{k}: delay added => flagged', A + s.pc + [v['extra'] > 0], z3.Not(t.get('delay_flag')), ex.lemmas)
        ob.add(f'path{k}: ast is the entry instant', A + s.pc, t.get('ast') != 0, ex.lemmas)
    # the same through the scheduler path (update_allocation, then do_work)
    spaths, sv, sex = K.encoding(encode, via_scheduler=True)
    snom = nominal(sv)
    for k, (s, o) in enumerate(spaths):
        if o.kind != 'fall':
            ob.add(f'scheduler path {k} ends by {o.kind}', assumptions(sv) + s.pc, z3.BoolVal(True), sex.lemmas)
            continue
        t = s.env['self']
        run = t.get('aft') - t.get('ast')
        ob.add(f'sched path{k}: runtime >= max(1, nominal+extra)', assumptions(sv) + s.pc, z3.Not(run >= z3.If(snom + sv['extra'] >= 1, snom + sv['extra'], 1)), sex.lemmas)
        ob.add(f'sched path{k}: runtime <= max(1, nominal)+extra', assumptions(sv) + s.pc, z3.Not(run <= z3.If(snom >= 1, snom, 1) + sv['extra']), sex.lemmas)
    # ingest task: no demands, no delay model, duration = observation duration >= 1
    ipaths, iv, iex = K.encoding(encode, with_delay=False)
    for k, (s, o) in enumerate(ipaths):
        t = s.env['self']
        ob.add(f'ingest path{k}: runtime == observation duration', assumptions(iv) + s.pc + [iv['flops'] == 0, iv['data'] == 0, iv['dur0'] >= 1],
               (t.get('aft') - t.get('ast')) != iv['dur0'], iex.lemmas)
    # monotonicity: two copies of the merged runtime term
    R = runtime_term(paths)
    names = ['flops', 'data', 'cpu', 'bw', 'dur0', 'eft', 'extra']
    v2 = {n: z3.Int(n + '2') for n in names}
    R2 = z3.substitute(R, *[(v[n], v2[n]) for n in names])
    same = lambda keep: [v[n] == v2[n] for n in names if n not in keep]
    A2 = [z3.substitute(a, *[(v[n], v2[n]) for n in names]) for a in A]
    work = [z3.Or(v['flops'] > 0, v['data'] > 0)]
    ob.add('monotone: more compute, same machine', A + A2 + work + same(['flops']) + [v['flops'] <= v2['flops']], R > R2, ex.lemmas)
    ob.add('monotone: more data, same machine', A + A2 + work + same(['data']) + [v['data'] <= v2['data']], R > R2, ex.lemmas)
    ob.add('monotone: slower cpu, same work', A + A2 + work + same(['cpu']) + [v['cpu'] >= v2['cpu']], R > R2, ex.lemmas)
    ob.add('monotone: lower bandwidth, same work', A + A2 + work + same(['bw']) + [v['bw'] >= v2['bw']], R > R2, ex.lemmas)
    res = ob.discharge()
    bad = [r for r in res if r['z3'] != 'unsat']
    disagree = [r for r in res if r['z3'] == 'unsat' and r.get('cvc5') == 'sat']
    out = {'paths': len(paths) + len(ipaths) + len(spaths), 'queries': ex.queries + iex.queries + sex.queries + len(res), 'solver_s': round(sum(r['z3_s'] for r in res), 2),
           'obligations': len(res), 'discharged': sum(1 for r in res if r['z3'] == 'unsat'),
           'detail': {'lemmas_used': sorted(ex.lemmas), 'cvc5_agree': sum(1 for r in res if r.get('cvc5') == 'unsat'),
                      'cvc5_no_answer': sum(1 for r in res if r.get('cvc5') not in ('unsat', 'sat', None))},
           'witnesses': [{'obligation': r['name'], 'z3': r['z3'], 'cvc5': r.get('cvc5')} for r in res[:4]]}
    # translator validation: real do_work vs encoding on concrete inputs
    nval, mism = validate(paths, v)
    out['validated'] = nval
    if mism:
        out['status'] = 'ERROR'
        out['error'] = f'translator validation failed: {mism[:3]}'
        return out
    if disagree:
        out['status'] = 'ERROR'
        out['error'] = f'solver disagreement (z3 unsat, cvc5 sat): {disagree[:2]}'
        return out
    unknown = [r for r in bad if r['z3'] != 'sat']
    sat = [r for r in bad if r['z3'] == 'sat']
    if sat:
        m = sat[0]['model']
        out['status'] = 'REFUTED'
        out['cex'] = {n: int(m.get(n, '0')) for n in ['flops', 'data', 'cpu', 'bw', 'dur0', 'extra']}
        if sat[0]['name'].startswith('sched'):
            out['cex']['sched'] = 1
        if 'monotone' in sat[0]['name']:
            out['cex'].update({n + '2': int(m.get(n + '2', m.get(n, '0'))) for n in ['flops', 'data', 'cpu', 'bw']})
        out['cex_message'] = f"{sat[0]['name']}: {m}"
    elif unknown:
        out['status'] = 'INCOMPLETE'
    else:
        out['status'] = 'CONFIRMED'
    return out


class _Extra(DelayModel):
    def __init__(self, x):
        super().__init__(0.0, 'normal', DelayModel.DelayDegree.LOW)
        self.x = x

    def generate_delay(self, r, n=100):
        return r + self.x


def real_run(flops, data, cpu, bw, dur0, extra, sched=0):
    env = simpy.Environment()
    env.run(until=3)
    m = Machine('m', cpu, 1, 1, bw)
    t = Task('t', 0, dur0, 'm', [], flops, data, {}, _Extra(extra))
    if sched:
        t.update_allocation(m)          # what Scheduler._process_current_schedule does before the cluster runs the task
    p = env.process(t.do_work(env, m, None))
    env.run(until=p)
    return t, env.now


def validate(paths, v):
    rnd = random.Random(6)
    cases = [(11 * 1, 0, 1, 1, 11, 0), (5040, 0, 600, 10, 0, 0), (0, 0, 1, 1, 11, 0), (0, 0, 1, 1, 0, 0), (1, 0, 2, 1, 0, 0)]
    for _ in range(150):
        cases.append((rnd.choice([0, 1, 7, 40, 999, 5040]), rnd.choice([0, 0, 3, 50]), rnd.randint(1, 12), rnd.randint(1, 12), rnd.randint(0, 4), rnd.choice([0, 0, 1, 3])))
    mism = []
    for c in cases:
        t, end = real_run(*c)
        vals = dict(zip(['flops', 'data', 'cpu', 'bw', 'dur0', 'extra'], c))
        vals['eft'] = c[4]
        sub = [(v[n], z3.IntVal(x)) for n, x in vals.items()]
        hit = 0
        for (s, o) in paths:
            if all(z3.is_true(z3.simplify(z3.substitute(p, *sub))) for p in s.pc):
                hit += 1
                enc = z3.simplify(z3.substitute(s.env['self'].get('aft') - s.env['self'].get('ast'), *sub)).as_long()
                if enc != t.aft - t.ast:
                    mism.append((c, enc, t.aft - t.ast))
        if hit != 1:
            mism.append((c, 'paths-true', hit))
    return len(cases), mism


def s1_tag(flops, data, cpu, bw, dur0, extra, flops2=None, data2=None, cpu2=None, bw2=None, sched=0):
    """concrete oracle on the real code (replay of a solver model)"""
    def run(f, d, c, b):
        t, end = real_run(f, d, c, b, dur0, extra, sched)
        nom = max(f // c, d // b) if (f > 0 or d > 0) else dur0
        r = t.aft - t.ast
        if r < max(1, nom + extra) or r > max(1, nom) + extra:
            return r, f'C06/runtime-mismatch/got-{r}-for-nominal-{min(nom, 3)}-extra-{min(extra, 2)}'
        if end != t.aft - 1:
            return r, 'C06/exit-instant'
        if extra > 0 and not t.delay_flag:
            return r, 'C06/delay-not-flagged'
        return r, None
    r1, t1 = run(flops, data, cpu, bw)
    if t1:
        return t1
    if flops2 is not None:
        r2, t2 = run(flops2, data2, cpu2, bw2)
        if t2:
            return t2
        if r1 > r2:
            return 'C06/not-monotone'
    return None


def shards(tier, prop):
    from vk import lemmas
    return [{'kind': 'py', 'fn': 's1', 'cond_timeout': 300, 'name': 'smt:Task.do_work'}] + lemmas.jobs(['L1'], tier)
