"""C15 - the delay model only lengthens, deterministically, and is reported.
H1: real DelayModel.generate_delay with numpy's generator replaced by a stub whose draws are solver variables (E7).
H2: real Task.do_work (SimPy process) with an injected delay x (E10) -> flag; Scheduler._update_current_plan -> DELAYED."""
import simpy
import topsim.core.delay as D
from topsim.core.delay import DelayModel
from topsim.core.scheduler import Scheduler, ScheduleStatus
from topsim.core.planner import WorkflowPlan, WorkflowStatus
from vk import wit
from vk.kit import *
from vk.wit import pick

PIN = {}
RMAX = 6
FUNCTIONS = [DelayModel.generate_delay, DelayModel._create_random_value_from_runtime, DelayModel.__init__, Task.do_work,
             Task._calc_task_delay, Scheduler._update_current_plan]
META = {
    'bounds': {'C15.runtime': '0..6 (enumerated by branching; the property quantifies over a bounded integer range including 0)', 'C15.draws': '3 samples per generator call, unbounded ints (uniform clamped to [low, high])',
               'C15.prob': [0.0, 0.5, 1.0], 'C15.u': [0.0, 0.5, 0.75], 'C15.degrees': 'all four', 'C15.seeds': '0, 7, 20; a second seed with its own stream is used after the first in the same interpreter', 'C15.dists': ['normal', 'poisson', 'uniform'],
               'C15.do_work': 'duration 0..3, injected delay 0..3'},
    'outside_bounds': ["numpy's actual distributions (replaced by the E7 contract)", 'non-integer draws (int() of a symbolic float is enumerated, not decided)',
                       'sample counts other than 3'],
    'stubs': ['E7: topsim.core.delay.default_rng -> stub generator; seeded streams are a function of the seed, unseeded ones are fresh; normal(mu,0,n) == mu; poisson(0,n) == 0; poisson >= 0; uniform within [low, high]',
              'E10: SymDelay.generate_delay(r) = r + x'],
    'assumptions': ['runtimes are whole timesteps'],
}


class StubGap(Exception):
    """the code under test used a part of numpy's array API this stand-in does not model: no verdict"""


class Mean:
    """exact mean of integer draws as the pair (total, n); compared by cross-multiplication (integers only)"""

    def __init__(self, total, n):
        self.total, self.n = total, n


def _cmp(x, other, op):
    if isinstance(other, Mean):
        x, other = x * other.n, other.total
    if op == 'gt':
        return x > other
    if op == 'ge':
        return x >= other
    if op == 'lt':
        return x < other
    return x <= other


class Arr(list):
    """the slice of numpy's array API the delay model uses: elementwise comparisons, boolean-mask indexing, len,
    mean/sum/min/max; anything else is a StubGap (harness error, never a verdict)"""

    def __gt__(self, other):
        return Arr([_cmp(x, other, 'gt') for x in self])

    def __ge__(self, other):
        return Arr([_cmp(x, other, 'ge') for x in self])

    def __lt__(self, other):
        return Arr([_cmp(x, other, 'lt') for x in self])

    def __le__(self, other):
        return Arr([_cmp(x, other, 'le') for x in self])

    def __getitem__(self, k):
        if isinstance(k, Arr):
            return Arr([x for x, b in zip(self, k) if b])
        return list.__getitem__(self, k)

    def mean(self):
        return Mean(sum(self), len(self))

    def sum(self):
        return sum(self)

    def min(self):
        return min(self)

    def max(self):
        return max(self)

    def __getattr__(self, name):
        if name.startswith('__'):
            raise AttributeError(name)
        raise StubGap(f'numpy array attribute {name!r} is not modelled by the harness stand-in')


class RNG:
    """a generator object is stateful: the k-th draw from one object differs from the first (a fresh generator made
    from the same seed starts again at the first draw)"""

    def __init__(self, stream):
        self.s = stream
        self.calls = 0

    def random(self, *a, **k):
        self.calls += 1
        return self.s['u'] if self.calls == 1 else self.s['u2']

    def _n(self, a, k, default=None):
        n = k.get('size', a[2] if len(a) > 2 else default)
        return n

    def normal(self, mu=0, sigma=1, size=None):
        if size is None:
            return mu if sigma == 0 else self.s['x'][0]
        if sigma == 0:
            return Arr([mu] * size)
        return Arr(self.s['x'][:size])

    def poisson(self, lam=1, size=None):
        if lam == 0:                       # Poisson(0) is the constant 0
            return 0 if size is None else Arr([0] * size)
        if size is None:
            return self.s['x'][0] if self.s['x'][0] >= 0 else 0
        return Arr([(x if x >= 0 else 0) for x in self.s['x'][:size]])

    def uniform(self, low=0, high=1, size=None):
        # integer-valued draws inside [low, high]; bounds rounded inwards when they are concrete so that
        # the solver compares integers only (int-vs-float comparisons convert the unbounded int to binary64)
        if type(low) is float:
            low = -int(-low // 1)
        if type(high) is float:
            high = int(high // 1)

        def clamp(x):
            if x < low:
                return low
            if x > high:
                return high
            return x
        if size is None:
            return clamp(self.s['x'][0])
        return Arr([clamp(x) for x in self.s['x'][:size]])


SEEDED = {}
FRESH = []


def default_rng(seed=None):
    if seed is None:
        return RNG(FRESH.pop(0))
    return RNG(SEEDED[seed])


D.default_rng = default_rng
DEG = [DelayModel.DelayDegree.LOW, DelayModel.DelayDegree.MID, DelayModel.DelayDegree.HIGH, DelayModel.DelayDegree.NONE]
DIST = ['normal', 'poisson', 'uniform']


def gen_tag(dist, deg, pk, r, uk, x0, x1, x2, y0, y1, y2):
    wit.begin()
    r = wit.concretize(r, 0, RMAX)     # runtime is time-like: enumerated by branching, so no symbolic float arithmetic (sigma = k * mu)
    u = pick([0.0, 0.5, 0.75], uk)
    prob = pick([0.0, 0.5, 1.0], pk)
    SEEDED.clear()
    seed = PIN.get('seed', 20)
    u2 = pick([0.75, 0.0, 0.5], uk)          # what a generator that is NOT re-created would return on its second use
    for sd in (0, 7, 20):
        SEEDED[sd] = {'u': u, 'u2': u2, 'x': [x0, x1, x2]}
    # an unseeded generator is a different stream every time it is created
    FRESH[:] = [{'u': u, 'u2': u2, 'x': [y0, y1, y2]}, {'u': u, 'u2': u2, 'x': [y1, y2, y0]}, {'u': u, 'u2': u2, 'x': [y2, y0, y1]},
                {'u': u, 'u2': u2, 'x': [y0, y2, y1]}] * 3
    dname = DIST[dist]
    dm = DelayModel(prob, dname, DEG[deg], seed=seed)
    try:
        out = dm.generate_delay(r, 3)
    except StubGap as ex:
        return f'ERR:stub-gap {ex}'
    except Exception as ex:
        return f'C15/raises/{type(ex).__name__}/{dname}' + ('/runtime0' if r == 0 else '')
    dm2 = DelayModel(prob, dname, DEG[deg], seed=seed)
    try:
        out2 = dm2.generate_delay(r, 3)
    except Exception as ex:
        return f'C15/raises-on-second-call/{type(ex).__name__}/{dname}'
    if out2 != out:
        return f'C15/not-deterministic/{dname}'
    try:
        out3 = dm.generate_delay(r, 3)             # the same model asked again with the same arguments
    except Exception as ex:
        return f'C15/raises-on-second-call/{type(ex).__name__}/{dname}'
    if out3 != out:
        return f'C15/not-deterministic/same-model-asked-twice/{dname}'
    if out < r:
        return f'C15/shortened/{dname}'
    if (deg == 3 or pk == 0 or r == 0) and out != r:
        return f'C15/changed-when-it-must-not/{dname}'
    if out > r:
        wit.reach('delay-added')
    return None


def seed2_ok_tag(r, x0, x1, x2, y0, y1, y2):
    """a model created with ANOTHER seed draws from that seed's own stream (y0..y2), whatever was drawn before under the
    first seed (stream x0..x2) in the same interpreter; probability 1, so both models draw"""
    wit.begin()
    r = wit.concretize(r, 0, RMAX)
    dname, deg, seed = DIST[PIN.get('dist', 0)], DEG[PIN.get('deg', 1)], PIN.get('seed', 20)
    other = {0: 7, 7: 20, 20: 0}.get(seed, 0)
    SEEDED.clear()
    SEEDED[seed] = {'u': 0.0, 'u2': 0.75, 'x': [x0, x1, x2]}
    SEEDED[other] = {'u': 0.0, 'u2': 0.75, 'x': [y0, y1, y2]}
    if PIN.get('variant') == 'degree':
        # same seed and arguments, another degree: a uniform draw of the second model lies inside ITS interval
        # [runtime, runtime + degree * runtime], whatever a model of a larger degree drew before
        try:
            DelayModel(1.0, 'uniform', DelayModel.DelayDegree.HIGH, seed=seed).generate_delay(r, 3)
            out5 = DelayModel(1.0, 'uniform', DelayModel.DelayDegree.LOW, seed=seed).generate_delay(r, 3)
        except Exception as ex:
            return f'C15/raises/{type(ex).__name__}/uniform'
        if r >= 4:
            wit.reach('delay-added')
        if out5 < r or out5 * 4 > 5 * r:
            return 'C15/not-deterministic/value-drawn-for-another-degree-returned/uniform'
        return None
    try:
        out = DelayModel(1.0, dname, deg, seed=seed).generate_delay(r, 3)
        out4 = DelayModel(1.0, dname, deg, seed=other).generate_delay(r, 3)
    except Exception as ex:
        return f'C15/raises/{type(ex).__name__}/{dname}'
    if out > r:
        wit.reach('delay-added')
    own = [r, y0, y1, y2] + ([0] if dname == 'poisson' else [])        # superset of what the second stream can yield
    if not any(out4 == v for v in own):
        return f'C15/not-deterministic/value-drawn-under-another-seed-returned/{dname}'
    return None


def seed2_ok(r: int, x0: int, x1: int, x2: int, y0: int, y1: int, y2: int) -> bool:
    """
    pre: 0 <= r <= 6
    post: _
    """
    t = seed2_ok_tag(r, x0, x1, x2, y0, y1, y2)
    wit.note(t, r=r, x0=x0, x1=x1, x2=x2, y0=y0, y1=y1, y2=y2)
    return wit.verdict(t)


def gen_ok_tag(pk, r, uk, x0, x1, x2, y0, y1, y2):
    t = gen_tag(PIN['dist'], PIN['deg'], pk, r, uk, x0, x1, x2, y0, y1, y2)
    if t is not None and PIN.get('only') and PIN['only'] not in t:
        return None                 # shared with C10: that check asserts the determinism clause only
    return t


def gen_ok(pk: int, r: int, uk: int, x0: int, x1: int, x2: int, y0: int, y1: int, y2: int) -> bool:
    """
    pre: 0 <= pk <= 2 and 0 <= uk <= 2 and 0 <= r <= 6
    post: _
    """
    t = gen_ok_tag(pk, r, uk, x0, x1, x2, y0, y1, y2)
    wit.note(t, pk=pk, r=r, uk=uk, x0=x0, x1=x1, x2=x2, y0=y0, y1=y1, y2=y2)
    return wit.verdict(t)


class SymDelay(DelayModel):
    def __init__(self, x):
        super().__init__(0.0, 'normal', DelayModel.DelayDegree.LOW)
        self.x = x

    def generate_delay(self, task_runtime, n=100):
        return task_runtime + self.x


def flag_tag(d, x, eft_slack, last=0):
    wit.begin()
    env = simpy.Environment()
    m = Machine('m0', 10, 1, 1, 10)
    t = Task('A_0_0', 0, d + eft_slack, 'm0', [], 0, 0, {}, SymDelay(x))
    t.duration = d
    p = env.process(t.do_work(env, m, None))
    for _ in range(12):
        if p.triggered:
            break
        env.run(env.now + 1)
    else:
        return 'C15/do-work-never-ends'
    if x > 0:
        wit.reach('delay-injected')
        if not t.delay_flag:
            return 'C15/delay-added-but-task-not-flagged'
        if t.delay_offset < x:
            return 'C15/delay-offset-smaller-than-delay'
    if t.aft - t.ast < d + x:
        return 'C15/injected-delay-shortened-task'
    t.task_status = TaskStatus.FINISHED
    sch = Scheduler(env, None, None, None)
    # a second task of the same plan, on time and with slack, finished in the same pass and listed AFTER the delayed one,
    # and a third one still to run
    t2 = Task('A_0_1', 0, 100, 'm1', [], 0, 0, {}, None)
    t2.ast, t2.aft, t2.task_status = 0, 1, TaskStatus.FINISHED
    t3 = Task('A_0_2', 0, 100, 'm1', [], 0, 0, {}, None)
    # last = 1: nothing is left to run - the pass that records the delayed task is also the one that empties the plan
    todo = [] if last == 1 else [t3]
    plan = WorkflowPlan('A', 0, 10, [t, t2] + todo, [t.id, t2.id] + [q.id for q in todo], WorkflowStatus.SCHEDULED, 1, None)
    rest = sch._update_current_plan(plan)
    if [r.id for r in rest] != [q.id for q in todo]:
        return 'C15/finished-task-kept-in-plan'
    if x > 0 and sch.schedule_status is not ScheduleStatus.DELAYED:
        return 'C15/schedule-not-reported-delayed'
    if x > 0 and sch.to_df is not None:
        pass
    return None


def flag_ok(d: int, x: int, eft_slack: int, last: int) -> bool:
    """
    pre: 0 <= d <= 3 and 0 <= x <= 3 and 0 <= eft_slack <= 8 and 0 <= last <= 1
    post: _
    """
    t = flag_tag(d, x, eft_slack, last)
    wit.note(t, d=d, x=x, eft_slack=eft_slack, last=last)
    return wit.verdict(t)


def flag_ok_tag(d, x, eft_slack, last=0):
    return flag_tag(d, x, eft_slack, last)


def warmup():
    gen_tag(0, 0, 2, 5, 0, 7, 3, 9, 1, 1, 1)
    flag_tag(2, 1, 0)


def shards(tier, prop):
    T = 150 if tier == 'quick' else 900
    if prop == 'C10':
        out = [{'fn': 'gen_ok', 'pin': {'dist': k, 'deg': g, 'seed': sd, 'only': 'not-deterministic'}, 'cond_timeout': T}
               for (k, g, sd) in ((0, 1, 20), (1, 2, 0), (2, 0, 7), (0, 2, 0), (1, 0, 20), (2, 1, 0))]
        out += [{'fn': 'seed2_ok', 'pin': {'dist': k, 'deg': g, 'seed': sd}, 'cond_timeout': T} for (k, g, sd) in ((0, 1, 20), (1, 2, 0), (0, 0, 7))]
        out.append({'fn': 'seed2_ok', 'pin': {'variant': 'degree', 'seed': 7}, 'cond_timeout': T})
        return out + [{'fn': 'gen_ok', 'pin': {'dist': 0, 'deg': 1}, 'cond_timeout': 30, 'twin': True}]
    out = [{'fn': 'gen_ok', 'pin': {'dist': k, 'deg': g, 'seed': (20, 0, 7)[(k + g) % 3]}, 'cond_timeout': T} for k in range(3) for g in range(4)]
    out += [{'fn': 'gen_ok', 'pin': {'dist': k, 'deg': 1, 'seed': 0}, 'cond_timeout': T} for k in range(3)]
    out += [{'fn': 'seed2_ok', 'pin': {'dist': k, 'deg': g, 'seed': sd}, 'cond_timeout': T} for (k, g, sd) in ((0, 1, 20), (1, 2, 0), (0, 2, 0)) + (((1, 1, 7),) if tier != 'quick' else ())]
    out.append({'fn': 'seed2_ok', 'pin': {'variant': 'degree', 'seed': 20}, 'cond_timeout': T})
    out.append({'fn': 'seed2_ok', 'pin': {'dist': 0, 'deg': 1}, 'cond_timeout': 30, 'twin': True})
    out.append({'fn': 'flag_ok', 'cond_timeout': T})
    out.append({'fn': 'gen_ok', 'pin': {'dist': 0, 'deg': 1}, 'cond_timeout': 30, 'twin': True})
    out.append({'fn': 'flag_ok', 'cond_timeout': 30, 'twin': True})
    return out
