"""C03 (Engine B + Engine A): precedence and transfer waits.
S1  Task._wait_for_transfer + the head of Task.do_work executed symbolically from their current source with k <= 3
    cross-machine predecessors: recorded start == max(allocation time, max_i(aft_i + io_i / bw)) over unbounded
    integers (exact rational reading; under bw | io_i every term is an integer and equals the float value: lemma L3).
H1  real Scheduler._find_pred_allocations: exactly the predecessors that ran on a different machine."""
import simpy, z3
from vk import smtkit as K
from vk import wit
from vk.kit import *
from vk.wit import pick
from topsim.core.scheduler import Scheduler

PIN = {}
FUNCTIONS = [Task._wait_for_transfer, Task.do_work, Scheduler._find_pred_allocations]
META = {
    'bounds': {'C03.smt.predecessors': '0..3 on other machines', 'C03.smt.now/aft/io/bw': 'unbounded ints (bw >= 1, io >= 0)', 'C03.find_pred': '3 predecessors, machine index of each symbolic', 'C03.wait_grid': 'now 2..4, predecessor finish 0..now, volumes bw x (0..3), 0..3 predecessors (case-split, native)'},
    'outside_bounds': ['more than 3 cross-machine predecessors', 'binary64 rounding of io/bw when bw does not divide io (rational reading asserted instead)'],
    'stubs': [], 'assumptions': ['lemma L3 beyond the solver-checked width'],
}


def encode(k):
    M = K.methods_of(Task)
    now = z3.Int('now')
    bw = z3.Int('bw')
    afts = [z3.Int(f'aft{i}') for i in range(k)]
    ios = [z3.Int(f'io{i}') for i in range(k)]
    ex = K.Exec(M, {'TaskStatus': K.Rec(RUNNING='RUNNING'), 'logger': K.Rec()})
    preds = [K.Rec(id=f'p{i}', aft=afts[i]) for i in range(k)]
    task = K.Rec(flops=z3.IntVal(0), task_data=z3.IntVal(0), duration=z3.IntVal(1), eft=z3.IntVal(0), delay=None, delay_flag=z3.BoolVal(False),
                 delay_offset=z3.IntVal(0), task_status=None, ast=z3.IntVal(-1), aft=z3.IntVal(-1), id='t', io={f'p{i}': ios[i] for i in range(k)})
    machine = K.Rec(cpu=z3.IntVal(1), bandwidth=bw)
    env = K.Rec(now=now)
    st = K.State({}, [], now, [])
    fdef = M['do_work']
    for a, v in zip(fdef.args.args, [task, env, machine, preds if k else None]):
        st.env[a.arg] = v
    A = [now >= 0, bw >= 1] + [a >= 0 for a in afts] + [i >= 0 for i in ios] + [a <= now for a in afts]
    ex.base = A
    paths = ex.block(fdef.body, st)
    return paths, dict(now=now, bw=bw, afts=afts, ios=ios), ex, A


def s1(spec):
    ob = K.Obligations()
    npaths = nq = 0
    lem = set()
    for k in range(0, 4):
        paths, v, ex, A = K.encoding(encode, k)
        npaths += len(paths)
        nq += ex.queries
        lem |= ex.lemmas
        for j, (s, o) in enumerate(paths):
            t = s.env['self']
            ast_ = t.get('ast')
            # rational arithmetic with common denominator bw: ast = num / bw
            if isinstance(ast_, K.Frac):
                num, den = ast_.n, ast_.d
            else:
                num, den = K._int(ast_) * v['bw'], v['bw']
            ob.add(f'k={k} path{j}: denominator is the receiving bandwidth', A + s.pc, z3.And(den != v['bw'], den != 1), ex.lemmas)
            scale = z3.If(den == 1, v['bw'], 1)
            num = num * scale
            cands = [v['now'] * v['bw']] + [v['afts'][i] * v['bw'] + v['ios'][i] for i in range(k)]
            ob.add(f'k={k} path{j}: start >= allocation time and every arrival', A + s.pc, z3.Not(z3.And(*[num >= c for c in cands])), ex.lemmas)
            ob.add(f'k={k} path{j}: start is one of them (the maximum)', A + s.pc, z3.Not(z3.Or(*[num == c for c in cands])), ex.lemmas)
    res = ob.discharge()
    bad = [r for r in res if r['z3'] != 'unsat']
    out = {'paths': npaths, 'queries': nq + len(res), 'solver_s': round(sum(r['z3_s'] for r in res), 2), 'obligations': len(res),
           'discharged': sum(1 for r in res if r['z3'] == 'unsat'),
           'detail': {'lemmas_used': sorted(lem), 'cvc5_agree': sum(1 for r in res if r.get('cvc5') == 'unsat'),
                      'cvc5_no_answer': sum(1 for r in res if r.get('cvc5') not in ('unsat', 'sat', None))},
           'witnesses': [{'obligation': r['name'], 'z3': r['z3'], 'cvc5': r.get('cvc5')} for r in res[:4]]}
    nval, mism = validate()
    out['validated'] = nval
    if mism:
        out['status'] = 'ERROR'
        out['error'] = f'translator validation failed: {mism[:3]}'
    elif any(r.get('cvc5') == 'sat' for r in res if r['z3'] == 'unsat'):
        out['status'] = 'ERROR'
        out['error'] = 'solver disagreement'
    elif [r for r in bad if r['z3'] == 'sat']:
        r = [r for r in bad if r['z3'] == 'sat'][0]
        m = r['model']
        out['status'] = 'REFUTED'
        out['cex_message'] = f"{r['name']}: {m}"
        out['cex'] = {'now': int(m.get('now', '0')), 'bw': int(m.get('bw', '1')), 'afts': [int(m.get(f'aft{i}', '0')) for i in range(3)],
                      'ios': [int(m.get(f'io{i}', '0')) for i in range(3)], 'k': int(r['name'][2])}
    elif bad:
        out['status'] = 'INCOMPLETE'
    else:
        out['status'] = 'CONFIRMED'
    return out


def real_start(now, bw, afts, ios, k):
    from fractions import Fraction
    env = simpy.Environment()
    if now:
        env.run(until=now)
    m = Machine('m', 1, 1, 1, bw)
    preds = []
    for i in range(k):
        p = Task(f'p{i}', 0, 1, 'x', [], 0, 0, {}, None)
        p.aft = afts[i]
        preds.append(p)
    t = Task('t', 0, 1, 'm', [p.id for p in preds], 0, 0, {f'p{i}': ios[i] for i in range(k)}, None)
    pr = env.process(t.do_work(env, m, preds if k else None))
    env.run(until=pr)
    want = Fraction(now)
    for i in range(k):
        want = max(want, Fraction(afts[i]) + Fraction(ios[i], bw))
    return t.ast, want


def validate():
    import random
    rnd = random.Random(3)
    mism, n = [], 0
    for _ in range(120):
        k = rnd.randint(0, 3)
        bw = rnd.choice([1, 2, 5, 10])
        now = rnd.randint(0, 9)
        afts = [rnd.randint(0, now) for _ in range(3)]
        ios = [bw * rnd.randint(0, 6) for _ in range(3)]      # whole multiples: exact in binary64 (L3)
        got, want = real_start(now, bw, afts, ios, k)
        n += 1
        if got != want:
            mism.append((now, bw, afts, ios, k, got, str(want)))
    return n, mism


def s1_tag(now, bw, afts, ios, k):
    got, want = real_start(now, bw, afts, ios, k)
    if abs(float(got) - float(want)) > 1e-9:
        return 'C03/start-not-max-of-allocation-and-arrivals'
    return None


def fpa_tag(m0, m1, m2, mt, np_):
    """real _find_pred_allocations: predecessor i ran on machine m_i, the task is allocated to machine mt"""
    wit.begin()
    env, c = new_cluster(3, start=False)
    sch = Scheduler(env, None, c, None)
    ms = [pick(c.machines, x) for x in (m0, m1, m2)]
    ids = ['A_0_0', 'A_0_1', 'A_0_2']
    allocs = {}
    for i in range(3):
        allocs[ids[i]] = (mk_task(ids[i], 1), ms[i])
    preds = [ids[i] for i in range(3) if i < np_]
    t = mk_task('A_0_3', 1, preds=preds, io={p: 5 for p in preds})
    target = pick(c.machines, mt)
    got = sorted(x.id for x in sch._find_pred_allocations(t, target, allocs))
    want = sorted(ids[i] for i in range(3) if i < np_ and ms[i].id != target.id)
    if want:
        wit.reach('cross-machine-predecessor')
    if got != want:
        return 'C03/transfer-wait-for-wrong-predecessors'
    return None


def fpa(m0: int, m1: int, m2: int, mt: int, np_: int) -> bool:
    """
    pre: 0 <= m0 <= 2 and 0 <= m1 <= 2 and 0 <= m2 <= 2 and 0 <= mt <= 2 and 0 <= np_ <= 3
    post: _
    """
    t = fpa_tag(m0, m1, m2, mt, np_)
    wit.note(t, m0=m0, m1=m1, m2=m2, mt=mt, np_=np_)
    return wit.verdict(t)


def _wait(now, bw, a0, a1, a2, v0, v1, v2, k):
    got, want = real_start(now, bw, [a0, a1, a2], [bw * v0, bw * v1, bw * v2], k)
    if got != want:
        return 'C03/start-not-max-of-allocation-and-arrivals'
    return None


def wait_tag(now, a0, a1, a2, v0, v1, v2, k):
    """Engine A cross-check of S1 on the real Task.do_work under SimPy: every combination of predecessor finish times and
    edge volumes (whole multiples of the bandwidth) in a small box, case-split by the solver and run natively - independent
    of whether Engine B can parse the current source"""
    wit.begin()
    cz = wit.concretize
    now, a0, a1, a2 = cz(now, 0, 4), cz(a0, 0, 4), cz(a1, 0, 4), cz(a2, 0, 4)
    v0, v1, v2, k = cz(v0, 0, 3), cz(v1, 0, 3), cz(v2, 0, 3), cz(k, 0, 3)
    if k >= 2:
        wit.reach('several-cross-machine-predecessors')
    return wit.native(_wait, now, PIN.get('bw', 5), a0, a1, a2, v0, v1, v2, k)


def wait(now: int, a0: int, a1: int, a2: int, v0: int, v1: int, v2: int, k: int) -> bool:
    """
    pre: 0 <= now <= 4 and 0 <= a0 <= now and 0 <= a1 <= now and 0 <= a2 <= now
    pre: 0 <= v0 <= 3 and 0 <= v1 <= 3 and 0 <= v2 <= 3 and 0 <= k <= 3 and pinned_now(now, k, a2, v2)
    post: _
    """
    t = wait_tag(now, a0, a1, a2, v0, v1, v2, k)
    wit.note(t, now=now, a0=a0, a1=a1, a2=a2, v0=v0, v1=v1, v2=v2, k=k)
    return wit.verdict(t)


def pinned_now(now, k, a2, v2):
    if PIN.get('now') is not None and now != PIN['now']:
        return False
    if PIN.get('k') is not None and k != PIN['k']:
        return False
    return PIN.get('k') != 2 or (a2 == 0 and v2 == 0)      # the third predecessor does not exist when k = 2


def warmup():
    fpa_tag(0, 1, 2, 0, 3)


def shards(tier, prop):
    from vk import lemmas
    return [{'kind': 'py', 'fn': 's1', 'cond_timeout': 300, 'name': 'smt:Task._wait_for_transfer+do_work'},
            {'fn': 'fpa', 'cond_timeout': 200}, {'fn': 'fpa', 'cond_timeout': 40, 'twin': True}] + lemmas.jobs(['L3'], tier) + \
           [{'fn': 'wait', 'pin': {'now': n, 'bw': b, 'k': k}, 'cond_timeout': 300} for (n, b, k) in ((2, 5, 3), (3, 1, 2), (4, 2, 2))] + \
           [{'fn': 'wait', 'pin': {'now': 3, 'bw': 5}, 'cond_timeout': 40, 'twin': True}]
