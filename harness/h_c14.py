"""C14 - a generated plan is a faithful copy of the workflow graph.
Real Planner.run -> BatchPlanning.generate_plan (real networkx) on a symbolic DAG: adjacency bits, compute,
optional data demand and edge volumes are solver variables; node labels permuted per shard."""
import itertools
import simpy, networkx as nx
from vk import wit
from vk.kit import *
from vk.wit import pick
from topsim.core.buffer import Buffer, HotBuffer, ColdBuffer
from topsim.core.planner import Planner, WorkflowPlan
from topsim.core.instrument import Observation
from topsim.user.plan.batch_planning import BatchPlanning
import topsim.user.plan.batch_planning as BP
from topsim.algorithms.planning import Planning

PIN = {}
NAMES = ['o1', 'emu', 'dingo_7']
FUNCTIONS = [BatchPlanning.generate_plan, Planner.run, WorkflowPlan.get_task_predecessors, WorkflowPlan.get_task_successors,
             Planning._create_observation_task_id, Planning._calc_workflow_est]
META = {
    'bounds': {'C14.nodes': '1..3 (quick), 1..4 (thorough); every DAG shape over them (adjacency bits i<j symbolic)',
               'C14.edge insertion order': 'ascending pairs, and reversed for 3 nodes', 'C14.labels': 'node labels permuted (identity + reversed quick; all permutations thorough)',
               'C14.comp/task_data/edge volumes': 'unbounded ints', 'C14.names': NAMES, 'C14.clock': [0, 7]},
    'outside_bounds': ['DAGs with more than 4 nodes', 'non-integer node labels', 'the SHADOW static planner (not installed)'],
    'stubs': ["E5: networkx's node_link_graph, as seen by batch_planning, returns a fresh copy of the symbolic nx.DiGraph; the real _workflow_to_nx / open / json.load run on a placeholder file"],
    'assumptions': ['workflow graph is a DAG with comp on every node and transfer_data on every edge'],
}
PAIRS4 = [(i, j) for i in range(4) for j in range(i + 1, 4)]


def build_graph(n, labels, bits, comps, has_td, tds, vols):
    g = nx.DiGraph()
    for i in range(n):
        if has_td[i]:
            g.add_node(labels[i], comp=comps[i], task_data=tds[i])
        else:
            g.add_node(labels[i], comp=comps[i])
    order = list(enumerate(PAIRS4))
    if PIN.get('rev_edges'):
        order.reverse()          # edges inserted in the opposite order (adjacency lists are kept in insertion order)
    for k, (i, j) in order:
        if i < n and j < n:
            if bits[k]:
                g.add_edge(labels[i], labels[j], transfer_data=vols[k])
    return g


def plan_tag(n, labels, bits, comps, has_td, tds, vols, name_k, clock):
    wit.begin()
    g = build_graph(n, labels, bits, comps, has_td, tds, vols)
    env = simpy.Environment()
    if clock:
        env.run(until=clock)
    model = BatchPlanning('batch')
    CURRENT[0] = lambda: build_graph(n, labels, bits, comps, has_td, tds, vols)    # what "parsing the workflow file" yields: a fresh graph object every time (E5)
    BP.nx = NXSHIM
    buf = Buffer(env, None, None, FakeCfg(hot=HotBuffer(100, 10), cold=ColdBuffer(100, 10)))
    name = pick(NAMES, name_k)
    obs = Observation(name, 0, 2, 1, wf_file(), 3)
    planner = Planner(env, None, model, None)
    try:
        plan = planner.run(obs, buf, 2)
        t = check_plan(plan, g, n, labels, comps, has_td, tds, name)
        if t:
            return t
        # the same planner plans a second observation from the same workflow file; both plans mirror the workflow
        if PIN.get('later_second_plan'):
            env.run(until=env.now + 3)           # otherwise both plans are made at the same clock value
        try:
            plan2 = planner.run(Observation('zz', 0, 2, 1, wf_file(), 3), buf, 2)
            gids = [t.graph_id for t in plan2.tasks]
        except Exception as ex:
            return f'C14/second-plan-from-the-same-workflow-raises/{type(ex).__name__}'
        if len(plan2.tasks) != n or any(not isinstance(x, int) for x in gids) or sorted(gids) != sorted(labels[:n]):
            return 'C14/second-plan-from-the-same-workflow-differs'
        for t2 in plan2.tasks:
            if 'zz' not in t2.id or name in t2.id.replace('zz', ''):
                return 'C14/second-plan-from-the-same-workflow-differs'
        t = check_plan(plan, g, n, labels, comps, has_td, tds, name)
        if t:
            return t + '/after-a-second-plan'
        return None
    finally:
        BP.nx = nx


class _RW:
    @staticmethod
    def node_link_graph(data, **kw):
        return CURRENT[0]()


class _NxShim:
    """networkx as seen by topsim.user.plan.batch_planning: everything real except reading node-link data, which yields a
    fresh copy of the harness's symbolic graph (the real _workflow_to_nx, file open and json.load stay in the loop)"""
    readwrite = _RW

    def __getattr__(self, name):
        return getattr(nx, name)


NXSHIM = _NxShim()
CURRENT = [None]


def wf_file():
    import os
    d = '/verif/.work/c14'
    p = d + '/wf.json'
    if not os.path.exists(p):
        os.makedirs(d, exist_ok=True)
        tmp = p + f'.{os.getpid()}'
        open(tmp, 'w').write('{"graph": {}}')
        os.replace(tmp, p)
    return p


def check_plan(plan, g, n, labels, comps, has_td, tds, name):
    tasks = plan.tasks
    if len(tasks) != n:
        return 'C14/task-count'
    by_label = {}
    for t in tasks:
        if t.graph_id in by_label:
            return 'C14/node-planned-twice'
        by_label[t.graph_id] = t
    if sorted(by_label) != sorted(labels[:n]):
        return 'C14/nodes-differ'
    ids = [t.id for t in tasks]
    if len(set(ids)) != n:
        return 'C14/ids-not-unique'
    for t in tasks:
        if name not in t.id:
            return 'C14/id-without-observation-name'
    pos = {t.id: k for k, t in enumerate(tasks)}
    for i in range(n):
        t = by_label[labels[i]]
        if t.flops != comps[i]:
            return 'C14/compute-demand-not-copied'
        if t.task_data != (tds[i] if has_td[i] else 0):
            return 'C14/data-demand-not-copied'
        want_pred = sorted(by_label[p].id for p in g.predecessors(labels[i]))
        if sorted(t.pred) != want_pred:
            return 'C14/pred-list-differs'
        want_io = {by_label[p].id: g.edges[p, labels[i]]['transfer_data'] for p in g.predecessors(labels[i])}
        if t.io != want_io:
            return 'C14/edge-volumes-differ'
        for p in t.pred:
            if pos[p] >= pos[t.id]:
                return 'C14/not-topologically-ordered'
    want_edges = sorted((by_label[u].id, by_label[v].id) for u, v in g.edges)
    got_edges = sorted((u.id, v.id) for u, v in plan.graph.edges)
    if want_edges != got_edges or plan.graph.number_of_nodes() != n:
        return 'C14/plan-graph-differs'
    if want_edges:
        wit.reach('plan-with-edges')
    for t in tasks:
        ps = sorted(x.id for x in plan.get_task_predecessors(t))
        ss = sorted(x.id for x in plan.get_task_successors(t))
        if ps != sorted(t.pred):
            return 'C14/predecessor-query-disagrees-with-graph'
        if ss != sorted(v for (u, v) in want_edges if u == t.id):
            return 'C14/successor-query-disagrees-with-graph'
    try:
        for t in tasks:
            for p in plan.get_task_predecessors(t):
                if t not in list(plan.get_task_successors(p)):
                    return 'C14/pred-succ-not-inverse'
    except nx.NetworkXError:
        return 'C14/plan-graph-does-not-hold-its-own-tasks'
    return None


def _labels():
    n = PIN.get('n', 3)
    perm = PIN.get('perm', list(range(4)))
    base = PIN.get('base', 0)
    return n, [base + perm[i] for i in range(4)]


def plan_ok_tag(b0, b1, b2, b3, b4, b5, c0, c1, c2, c3, h0, h1, h2, h3, d0, d1, d2, d3, v0, v1, v2, v3, v4, v5, name_k):
    n, labels = _labels()
    return plan_tag(n, labels, [b0, b1, b2, b3, b4, b5], [c0, c1, c2, c3], [h0, h1, h2, h3], [d0, d1, d2, d3],
                    [v0, v1, v2, v3, v4, v5], name_k, PIN.get('clock', 0))


def plan_ok(b0: bool, b1: bool, b2: bool, b3: bool, b4: bool, b5: bool, c0: int, c1: int, c2: int, c3: int,
            h0: bool, h1: bool, h2: bool, h3: bool, d0: int, d1: int, d2: int, d3: int,
            v0: int, v1: int, v2: int, v3: int, v4: int, v5: int, name_k: int) -> bool:
    """
    pre: 0 <= name_k <= 2
    pre: shape_ok(b0, b1, b2, b3, b4, b5, h0, h1, h2, h3)
    post: _
    """
    t = plan_ok_tag(b0, b1, b2, b3, b4, b5, c0, c1, c2, c3, h0, h1, h2, h3, d0, d1, d2, d3, v0, v1, v2, v3, v4, v5, name_k)
    wit.note(t, b0=b0, b1=b1, b2=b2, b3=b3, b4=b4, b5=b5, c0=c0, c1=c1, c2=c2, c3=c3, h0=h0, h1=h1, h2=h2, h3=h3,
             d0=d0, d1=d1, d2=d2, d3=d3, v0=v0, v1=v1, v2=v2, v3=v3, v4=v4, v5=v5, name_k=name_k)
    return wit.verdict(t)


def shape_ok(b0, b1, b2, b3, b4, b5, h0, h1, h2, h3):
    """inputs that do not exist for this shard's node count are pinned to False (no duplicate paths)"""
    n = PIN.get('n', 3)
    bits = [b0, b1, b2, b3, b4, b5]
    hs = [h0, h1, h2, h3]
    for k, (i, j) in enumerate(PAIRS4):
        if (i >= n or j >= n) and bits[k]:
            return False
    for i in range(4):
        if i >= n and hs[i]:
            return False
    if PIN.get('no_td') and (h0 or h1 or h2 or h3):
        return False
    return True


def warmup():
    plan_tag(3, [0, 1, 2, 3], [True, False, True, False, False, False], [1, 2, 3, 4], [True, False, False, False], [5, 0, 0, 0], [7, 8, 9, 1, 1, 1], 0, 0)


def shards(tier, prop):
    out = []
    if tier == 'quick':
        cfgs = [(1, [0, 1, 2, 3], 0, 0), (2, [1, 0, 2, 3], 0, 7), (3, [0, 1, 2, 3], 0, 0), (3, [2, 1, 0, 3], 5, 7)]
        for n, perm, base, clock in cfgs:
            out.append({'fn': 'plan_ok', 'pin': {'n': n, 'perm': perm, 'base': base, 'clock': clock}, 'cond_timeout': 150})
        out.append({'fn': 'plan_ok', 'pin': {'n': 3, 'perm': [0, 1, 2, 3], 'base': 0, 'clock': 0, 'rev_edges': True}, 'cond_timeout': 150})
        out.append({'fn': 'plan_ok', 'pin': {'n': 2, 'perm': [0, 1, 2, 3], 'base': 0, 'clock': 7, 'later_second_plan': True}, 'cond_timeout': 150})
    else:
        for n in (1, 2, 3, 4):
            for perm in itertools.permutations(range(n)):
                perm = list(perm) + list(range(n, 4))
                out.append({'fn': 'plan_ok', 'pin': {'n': n, 'perm': perm, 'base': 0, 'clock': 7 if n % 2 else 0, 'no_td': n == 4},
                            'cond_timeout': 1500})
                if n == 3:
                    out.append({'fn': 'plan_ok', 'pin': {'n': n, 'perm': perm, 'base': 0, 'clock': 0, 'rev_edges': True}, 'cond_timeout': 1500})
    out.append({'fn': 'plan_ok', 'pin': {'n': 2, 'perm': [0, 1, 2, 3], 'base': 0, 'clock': 0}, 'cond_timeout': 30, 'twin': True})
    return out
