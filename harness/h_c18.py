"""C18 - moving an observation between buffer tiers conserves data.

Real Buffer.move_hot_to_cold / move_cold_to_hot run as real SimPy processes; size, both tier rates, both
capacities and the other resident data are unbounded symbolic integers (size <= 3 * min(rates): <= 3 transfer
steps, the bound derived from the transfer loop)."""
import simpy
from vk import wit
from vk.kit import FakeCfg, drain
from topsim.core.buffer import Buffer, HotBuffer, ColdBuffer
from topsim.core.instrument import Observation, RunStatus

PIN = {}
FUNCTIONS = [Buffer.move_hot_to_cold, Buffer.move_cold_to_hot, HotBuffer.transfer_observation, HotBuffer.receive_observation,
             ColdBuffer.transfer_observation, ColdBuffer.receive_observation, HotBuffer.has_capacity_for, ColdBuffer.has_capacity_for,
             HotBuffer.observation_for_transfer, ColdBuffer.observation_for_transfer]
META = {
    'bounds': {'C18.size': 'unbounded int >= 1, size <= K*min(hot_rate, cold_rate): K = 6 transfer steps (quick) / 16 (thorough); round trip K = 3',
               'C18.rates': 'unbounded ints >= 1, either may be the slower', 'C18.capacities': 'unbounded ints', 'C18.other_resident_data': 'unbounded ints >= 0 (as a number, or as an observation stored earlier in the source tier)',
               'C18.directions': ['hot->cold', 'cold->hot', 'round trip']},
    'outside_bounds': ['moves longer than the stated number of transfer steps', 'several observations in transfer at once (the code supports one)',
                       "'real-time' mode (non-positive rates)"],
    'stubs': ['FakeCfg hands HotBuffer/ColdBuffer objects to Buffer.__init__ (no JSON)'],
    'assumptions': ['sizes and rates are integers (DESIGN E12)'],
}


def mk(size, rh, rc, hcap, ccap, ho, co, src):
    env = simpy.Environment()
    hot, cold = HotBuffer(hcap, rh), ColdBuffer(ccap, rc)
    buf = Buffer(env, None, None, FakeCfg(hot=hot, cold=cold))
    o = Observation('o1', 0, 1, 1, 'wf', size)
    o.total_data_size = size
    o.status = RunStatus.FINISHED
    hot.current_capacity = hcap - ho - (size if src == 'hot' else 0)
    cold.current_capacity = ccap - co - (size if src == 'cold' else 0)
    older = ho if src == 'hot' else co
    if PIN.get('older') and older >= 1:
        # the other resident data of the source tier is an observation stored EARLIER (the move takes the newest one)
        o0 = Observation('o0', 0, 1, 1, 'wf', older)
        o0.total_data_size = older
        o0.status = RunStatus.FINISHED
        (hot if src == 'hot' else cold).observations['stored'].append(o0)
    (hot if src == 'hot' else cold).observations['stored'].append(o)
    return env, buf, hot, cold, o


def snap(hot, cold):
    return (hot.current_capacity, cold.current_capacity, list(hot.observations['stored']), list(cold.observations['stored']),
            hot.observations['transfer'], cold.observations['transfer'])


def move(env, buf, hot, cold, o, size, rh, rc, direction):
    """run one move as a real process; returns (tag, result)"""
    before = snap(hot, cold)
    total = hot.current_capacity + cold.current_capacity
    src, dst = (hot, cold) if direction == 'h2c' else (cold, hot)
    room = dst.current_capacity >= size
    rate = rh if rh <= rc else rc
    gen = buf.move_hot_to_cold(0) if direction == 'h2c' else buf.move_cold_to_hot(0)
    try:
        p = env.process(gen)
        chunks = 0
        for i in range(kmax() + 3):
            prev = src.current_capacity
            env.run(env.now + 1)
            if hot.current_capacity + cold.current_capacity != total:
                return f'C18/{direction}/not-conserved-at-step', None
            if not (0 <= hot.current_capacity <= hot.total_capacity and 0 <= cold.current_capacity <= cold.total_capacity):
                return f'C18/{direction}/tier-out-of-range', None
            if src.current_capacity != prev:
                chunks += 1
                moved = src.current_capacity - before[0 if direction == 'h2c' else 1]
                want = size if chunks * rate >= size else chunks * rate
                if moved != want:
                    return f'C18/{direction}/not-at-slower-rate', None
            if p.triggered:
                break
        else:
            return f'C18/{direction}/does-not-complete', None
    except Exception as ex:
        return f'C18/{direction}/raises/{type(ex).__name__}', None
    if not room:
        if p.value is not False or snap(hot, cold) != before:
            return f'C18/{direction}/refused-move-changed-state', None
        return None, False
    if p.value is not True:
        return f'C18/{direction}/refused-although-room', None
    if chunks >= 2:
        wit.reach('multi-step-transfer')
    want_chunks = (size + rate - 1) // rate
    if chunks != want_chunks:
        return f'C18/{direction}/wrong-number-of-steps', None
    if (o in src.observations['stored']) or dst.observations['stored'].count(o) != 1 or any(x is not o for x in dst.observations['stored']):
        return f'C18/{direction}/not-stored-in-exactly-one-tier', None
    if hot.observations['transfer'] is not None or cold.observations['transfer'] is not None:
        return f'C18/{direction}/transfer-slot-left-set', None
    d_src = src.current_capacity - before[0 if direction == 'h2c' else 1]
    d_dst = dst.current_capacity - before[1 if direction == 'h2c' else 0]
    if d_src != size or d_dst != -size:
        return f'C18/{direction}/free-space-not-adjusted-by-size', None
    return None, True


def h2c_tag(size, rh, rc, hcap, ccap, ho, co):
    wit.begin()
    env, buf, hot, cold, o = mk(size, rh, rc, hcap, ccap, ho, co, 'hot')
    return move(env, buf, hot, cold, o, size, rh, rc, 'h2c')[0]


def h2c(size: int, rh: int, rc: int, hcap: int, ccap: int, ho: int, co: int) -> bool:
    """
    pre: size >= 1 and rh >= 1 and rc >= 1 and size <= kmax() * rh and size <= kmax() * rc
    pre: ho >= 0 and co >= 0 and ho + size <= hcap and co <= ccap
    post: _
    """
    t = h2c_tag(size, rh, rc, hcap, ccap, ho, co)
    wit.note(t, size=size, rh=rh, rc=rc, hcap=hcap, ccap=ccap, ho=ho, co=co)
    return wit.verdict(t)


def c2h_tag(size, rh, rc, hcap, ccap, ho, co):
    wit.begin()
    env, buf, hot, cold, o = mk(size, rh, rc, hcap, ccap, ho, co, 'cold')
    return move(env, buf, hot, cold, o, size, rh, rc, 'c2h')[0]


def c2h(size: int, rh: int, rc: int, hcap: int, ccap: int, ho: int, co: int) -> bool:
    """
    pre: size >= 1 and rh >= 1 and rc >= 1 and size <= kmax() * rh and size <= kmax() * rc
    pre: ho >= 0 and co >= 0 and ho <= hcap and co + size <= ccap
    post: _
    """
    t = c2h_tag(size, rh, rc, hcap, ccap, ho, co)
    wit.note(t, size=size, rh=rh, rc=rc, hcap=hcap, ccap=ccap, ho=ho, co=co)
    return wit.verdict(t)


def roundtrip_tag(size, rh, rc, hcap, ccap, ho, co):
    wit.begin()
    env, buf, hot, cold, o = mk(size, rh, rc, hcap, ccap, ho, co, 'hot')
    start = (hot.current_capacity, cold.current_capacity)
    t, ok = move(env, buf, hot, cold, o, size, rh, rc, 'h2c')
    if t or not ok:
        return t
    t, ok = move(env, buf, hot, cold, o, size, rh, rc, 'c2h')
    if t:
        return t + '/on-return-leg'
    if not ok:
        return 'C18/roundtrip/return-leg-refused-although-room'
    if (hot.current_capacity, cold.current_capacity) != start or hot.observations['stored'] != [o] or cold.observations['stored']:
        return 'C18/roundtrip/state-not-restored'
    return None


def roundtrip(size: int, rh: int, rc: int, hcap: int, ccap: int, ho: int, co: int) -> bool:
    """
    pre: size >= 1 and rh >= 1 and rc >= 1 and size <= 2 * rh and size <= 2 * rc
    pre: ho >= 0 and co >= 0 and ho + size <= hcap and co <= ccap
    post: _
    """
    t = roundtrip_tag(size, rh, rc, hcap, ccap, ho, co)
    wit.note(t, size=size, rh=rh, rc=rc, hcap=hcap, ccap=ccap, ho=ho, co=co)
    return wit.verdict(t)


def kmax():
    return PIN.get('kmax', 3)


def warmup():
    h2c_tag(5, 2, 3, 10, 10, 0, 0)
    c2h_tag(5, 2, 3, 10, 10, 0, 0)


def shards(tier, prop):
    T = 120 if tier == 'quick' else 900
    pin = {'kmax': 6} if tier == 'quick' else {'kmax': 16}
    return [{'fn': 'h2c', 'pin': pin, 'cond_timeout': T}, {'fn': 'c2h', 'pin': pin, 'cond_timeout': T}, {'fn': 'roundtrip', 'cond_timeout': T},
            {'fn': 'h2c', 'pin': dict(pin, older=True, kmax=3), 'cond_timeout': T}, {'fn': 'c2h', 'pin': dict(pin, older=True, kmax=3), 'cond_timeout': T},
            {'fn': 'h2c', 'cond_timeout': 30, 'twin': True}, {'fn': 'c2h', 'cond_timeout': 30, 'twin': True}]
