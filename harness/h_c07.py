"""C07 - buffer space is conserved and never over/under-flows (unit level, sizes unbounded symbolic).
H1 ingest stream, H2 removal, H3 admission predicate, H4 two overlapping ingests through the real telescope/scheduler
admission path (no workflow processing), hot free space checked after every step."""
import simpy
from vk import wit
from vk.kit import *
from vk.wit import concretize as cz
from topsim.core.buffer import Buffer, HotBuffer, ColdBuffer
from topsim.core.scheduler import Scheduler
from topsim.core.instrument import Observation, RunStatus
from topsim.user.telescope import Telescope

PIN = {}
FUNCTIONS = [Buffer.ingest_data_stream, HotBuffer.process_incoming_data_stream, HotBuffer.remove, Buffer.mark_observation_finished,
             Buffer.check_buffer_capacity, HotBuffer.has_capacity_for, ColdBuffer.has_capacity_for, Scheduler.check_ingest_capacity,
             Scheduler.allocate_ingest, Telescope.run]
META = {
    'bounds': {'C07.unit.rate/capacity/max_rate/resident data': 'unbounded ints', 'C07.unit.duration': '1..4', 'C07.fresh': 'two Buffer objects built one after the other in one interpreter, unbounded rates/capacity', 'C07.overlap': 'two observations, start offset 0..2, durations 1..3, rates/capacities unbounded'},
    'outside_bounds': ['more than two overlapping ingests at unit level', 'non-integer rates'],
    'stubs': ['FakeCfg instead of JSON config'], 'assumptions': ['integral rates and durations (E12)'],
}


def mk(hcap, hused, ccap, cused, rmax):
    env = simpy.Environment()
    hot, cold = HotBuffer(hcap, rmax), ColdBuffer(ccap, rmax)
    hot.current_capacity, cold.current_capacity = hcap - hused, ccap - cused
    return env, Buffer(env, None, None, FakeCfg(hot=hot, cold=cold)), hot, cold


def ingest_tag(rate, dur, hcap, hused, rmax):
    wit.begin()
    dur = cz(dur, 1, 4)
    env, buf, hot, cold = mk(hcap, hused, 10, 0, rmax)
    o = Observation('o1', 0, dur, 1, 'wf', rate)
    o.status = RunStatus.RUNNING
    before = hot.current_capacity
    p = env.process(buf.ingest_data_stream(o))
    try:
        for k in range(dur):
            env.run(env.now + 1)
            if hot.current_capacity != before - rate * (k + 1):
                return 'C07/deposit-not-rate-per-step'
            if o.total_data_size != rate * (k + 1):
                return 'C07/observation-size-not-tracking-deposits'
    except ValueError:
        if rate <= rmax:
            return 'C07/ingest-rejected-below-max-rate'
        if hot.current_capacity != before or o.total_data_size != 0:
            return 'C07/rejected-ingest-deposited-data'
        return None
    if rate > rmax:
        return 'C07/ingest-above-max-rate-accepted'
    env.run(env.now + 2)
    if hot.current_capacity != before - rate * dur or o.total_data_size != rate * dur:
        return 'C07/deposited-more-than-rate-times-duration'
    if hot.observations['stored'] != [o] or not p.triggered:
        return 'C07/not-stored-after-ingest'
    if dur >= 2:
        wit.reach('multi-step-ingest')
    # removal frees exactly that amount, once
    hot.next_observation_for_processing()
    if not buf.mark_observation_finished(o) or hot.current_capacity != before:
        return 'C07/removal-does-not-free-exactly-the-data'
    if buf.mark_observation_finished(o) or hot.current_capacity != before:
        return 'C07/removed-twice'
    return None


def ingest(rate: int, dur: int, hcap: int, hused: int, rmax: int) -> bool:
    """
    pre: rate >= 1 and 1 <= dur <= 4 and rmax >= rate and 0 <= hused and hused + rate * dur <= hcap
    post: _
    """
    t = ingest_tag(rate, dur, hcap, hused, rmax)
    wit.note(t, rate=rate, dur=dur, hcap=hcap, hused=hused, rmax=rmax)
    return wit.verdict(t)


def fresh_tag(rate, dur, hcap, rate2):
    """a buffer built while another buffer of the same process holds an observation starts empty, and what is then
    ingested into either is resident in that one only (used space == data of the observations resident in IT)"""
    wit.begin()
    dur = cz(dur, 1, 2)
    env1, buf1, hot1, cold1 = mk(hcap, 0, hcap, 0, rate + rate2)
    o1 = Observation('o1', 0, dur, 1, 'wf', rate)
    o1.status = RunStatus.RUNNING
    env1.process(buf1.ingest_data_stream(o1))
    env1.run(dur + 2)
    env2, buf2, hot2, cold2 = mk(hcap, 0, hcap, 0, rate + rate2)
    for tier, name in ((hot2, 'hot'), (cold2, 'cold')):
        held = list(tier.observations['stored'])
        held += list(tier.observations.get('scheduled', [])) + list(tier.observations.get('finished', []))
        if held or tier.observations['transfer'] is not None:
            return f'C07/new-{name}-buffer-holds-observations-while-all-its-space-is-free'
    o2 = Observation('o2', 0, 1, 1, 'wf', rate2)
    o2.status = RunStatus.RUNNING
    env2.process(buf2.ingest_data_stream(o2))
    env2.run(3)
    wit.reach('both-ingested')
    for hot, o in ((hot1, o1), (hot2, o2)):
        if hot.observations['stored'] != [o] or hot.total_capacity - hot.current_capacity != o.total_data_size:
            return 'C07/used-space-differs-from-resident-data-with-two-buffers-in-one-process'
    return None


def fresh(rate: int, dur: int, hcap: int, rate2: int) -> bool:
    """
    pre: rate >= 1 and rate2 >= 1 and 1 <= dur <= 2 and rate * dur < hcap and rate2 < hcap
    post: _
    """
    t = fresh_tag(rate, dur, hcap, rate2)
    wit.note(t, rate=rate, dur=dur, hcap=hcap, rate2=rate2)
    return wit.verdict(t)


def reject_tag(rate, rmax, dur, size_over):
    """the two refusals that format their operands into an error message (a symbolic operand would be enumerated
    value by value there, so these run over small case-split ranges)"""
    rate, rmax, dur, size_over = cz(rate, 1, 5), cz(rmax, 1, 4), cz(dur, 1, 3), cz(size_over, 0, 2)
    t = wit.native(ingest_tag, rate, dur, 100, 0, rmax)
    if t:
        return t
    # an observation as large as (or larger than) the hot buffer is refused with an error
    t = wit.native(admit_tag, rate, dur, rate * dur - size_over + 0, 0, 1000, 0, 1, 1, 1)
    wit.begin()
    if rate > rmax:
        wit.reach('rate-above-maximum')
    return t


def reject(rate: int, rmax: int, dur: int, size_over: int) -> bool:
    """
    pre: 1 <= rate <= 5 and 1 <= rmax <= 4 and 1 <= dur <= 3 and 0 <= size_over <= 2
    post: _
    """
    t = reject_tag(rate, rmax, dur, size_over)
    wit.note(t, rate=rate, rmax=rmax, dur=dur, size_over=size_over)
    return wit.verdict(t)


def admit_tag(rate, dur, hcap, hused, ccap, cused, r0, d0, got0):
    """admission predicate with one observation already admitted (rate r0, duration d0, got0 steps delivered)"""
    wit.begin()
    dur, d0, got0 = cz(dur, 1, 3), cz(d0, 1, 3), cz(got0, 0, 3)
    env, buf, hot, cold = mk(hcap, hused, ccap, cused, 10 ** 9)
    o0 = Observation('o0', 0, d0, 1, 'wf', r0)
    o0.status = RunStatus.RUNNING
    o0.total_data_size = r0 * got0
    hot.current_capacity -= r0 * got0
    sch = Scheduler(env, buf, None, None)
    if hasattr(buf, 'admit_observation'):
        buf.admit_observation(o0)
    o = Observation('o1', 0, dur, 1, 'wf', rate)
    size = rate * dur
    pending = r0 * (d0 - got0)
    try:
        ok = buf.check_buffer_capacity(o)
    except RuntimeError:
        return None if size >= hcap else 'C07/admission-raises-for-observation-smaller-than-hot-buffer'
    if size >= hcap:
        return 'C07/observation-as-large-as-hot-buffer-not-rejected'
    room = hot.current_capacity - pending >= size and cold.current_capacity >= size
    if ok and not room:
        return 'C07/admitted-without-room'
    if ok:
        wit.reach('admitted')
    if room and not ok:
        return 'C07/refused-although-room'
    return None


def admit(rate: int, dur: int, hcap: int, hused: int, ccap: int, cused: int, r0: int, d0: int, got0: int) -> bool:
    """
    pre: rate >= 1 and 1 <= dur <= 3 and r0 >= 1 and 1 <= d0 <= 3 and 0 <= got0 <= d0
    pre: 0 <= hused and 0 <= cused <= ccap and hused + r0 * d0 <= hcap and rate * dur < hcap
    post: _
    """
    t = admit_tag(rate, dur, hcap, hused, ccap, cused, r0, d0, got0)
    wit.note(t, rate=rate, dur=dur, hcap=hcap, hused=hused, ccap=ccap, cused=cused, r0=r0, d0=d0, got0=got0)
    return wit.verdict(t)


def free_mid_tag(rX, dX, rY, dY, got, hcap, other):
    """a workflow completes (its data is freed) while another observation is in the middle of its ingest"""
    wit.begin()
    dX, dY, got = cz(dX, 1, 3), cz(dY, 2, 4), cz(got, 1, 3)
    env, buf, hot, cold = mk(hcap, other, 10, 0, rX + rY)            # both rates within the buffer's maximum ingest rate
    X = Observation('X', 0, dX, 1, 'wf', rX)
    X.status = RunStatus.RUNNING
    p = env.process(buf.ingest_data_stream(X))
    env.run(env.now + dX + 1)
    hot.next_observation_for_processing()            # X is handed to the scheduler (stored -> scheduled)
    Y = Observation('Y', 0, dY, 1, 'wf', rY)
    Y.status = RunStatus.RUNNING
    env.process(buf.ingest_data_stream(Y))
    env.run(env.now + got)                           # Y has delivered `got` of its dY steps
    wit.reach('removal-during-ingest')
    before = hot.current_capacity
    if not buf.mark_observation_finished(X):
        return 'C07/scheduled-observation-not-removed'
    if hot.current_capacity != before + rX * dX:
        return 'C07/removal-does-not-free-exactly-the-data'
    if hot.total_capacity - hot.current_capacity != other + Y.total_data_size:
        return 'C07/used-space-differs-from-resident-data'
    env.run(env.now + dY + 2)
    if hot.total_capacity - hot.current_capacity != other + rY * dY or Y.total_data_size != rY * dY:
        return 'C07/used-space-differs-from-resident-data'
    return None


def free_mid(rX: int, dX: int, rY: int, dY: int, got: int, hcap: int, other: int) -> bool:
    """
    pre: rX >= 1 and rY >= 1 and 1 <= dX <= 3 and 2 <= dY <= 4 and 1 <= got < dY and other >= 0
    pre: other + rX * dX + rY * dY <= hcap
    post: _
    """
    t = free_mid_tag(rX, dX, rY, dY, got, hcap, other)
    wit.note(t, rX=rX, dX=dX, rY=rY, dY=dY, got=got, hcap=hcap, other=other)
    return wit.verdict(t)


def overlap_tag(r1, r2, s2, d1, d2, hcap, ccap, rmax):
    """two observations through the real admission path; hot free space after every step"""
    wit.begin()
    s2, d1, d2 = cz(s2, 0, 2), cz(d1, 1, 3), cz(d2, 1, 3)
    mi = PIN.get('max_ingest', 2)          # 1: the second observation has to wait for the first one's ingest machine (starts late)
    env, c = new_cluster(2)
    hot, cold = HotBuffer(hcap, rmax), ColdBuffer(ccap, rmax)
    buf = Buffer(env, c, None, FakeCfg(hot=hot, cold=cold))
    sch = Scheduler(env, buf, c, None)
    obs = [Observation('o1', 0, d1, 1, 'wf', r1), Observation('o2', s2, d2, 1, 'wf', r2)]
    tel = Telescope(env, FakeCfg(instrument=(4, {'o1': {'ingest_demand': 1}, 'o2': {'ingest_demand': 1}}, obs, mi)), None, sch)
    env.process(tel.run())
    try:
        for k in range(14):
            env.run(env.now + 1)
            if hot.current_capacity < 0 or hot.current_capacity > hot.total_capacity:
                return 'C07/hot-buffer-out-of-range'
            resident = sum(o.total_data_size for o in obs)
            if hot.total_capacity - hot.current_capacity != resident:
                return 'C07/used-space-differs-from-resident-data'
    except Exception as ex:
        return f'C07/raises/{type(ex).__name__}'
    done = [o for o in obs if o in hot.observations['stored']]
    for o in obs:
        if o.status is RunStatus.FINISHED and (o not in done or o.total_data_size != o.ingest_data_rate * o.duration):
            return 'C07/observation-finished-without-depositing-rate-times-duration'
    for o in done:
        if o.total_data_size != o.ingest_data_rate * o.duration:
            return 'C07/total-not-rate-times-duration'
    if len(done) == 2:
        wit.reach('both-ingested')
    return None


def overlap(r1: int, r2: int, s2: int, d1: int, d2: int, hcap: int, ccap: int, rmax: int) -> bool:
    """
    pre: 1 <= r1 <= rmax and 1 <= r2 <= rmax and 0 <= s2 <= 2 and 1 <= d1 <= 3 and 1 <= d2 <= 3
    pre: r1 * d1 < hcap and r2 * d2 < hcap and r1 * d1 <= ccap and r2 * d2 <= ccap
    post: _
    """
    t = overlap_tag(r1, r2, s2, d1, d2, hcap, ccap, rmax)
    wit.note(t, r1=r1, r2=r2, s2=s2, d1=d1, d2=d2, hcap=hcap, ccap=ccap, rmax=rmax)
    return wit.verdict(t)


def warmup():
    ingest_tag(3, 2, 100, 0, 5)
    admit_tag(3, 2, 100, 0, 100, 0, 2, 2, 1)
    overlap_tag(3, 4, 1, 2, 2, 100, 100, 10)
    free_mid_tag(3, 2, 4, 3, 1, 100, 5)


def shards(tier, prop):
    T = 200 if tier == 'quick' else 1200
    out = [{'fn': f, 'cond_timeout': T, 'path_timeout': 40} for f in ('ingest', 'admit', 'overlap', 'reject', 'free_mid', 'fresh')]
    out.append({'fn': 'overlap', 'pin': {'max_ingest': 1}, 'cond_timeout': T, 'path_timeout': 40})
    out += [{'fn': f, 'cond_timeout': 40, 'twin': True} for f in ('ingest', 'admit', 'overlap', 'reject', 'free_mid', 'fresh')]
    return out
