"""C19 - idle/empty/finished queries tell the truth (unit level: each query against an independent oracle on
symbolic actor states built by prelude through the real API)."""
import simpy
from vk import wit
from vk.kit import *
from topsim.core.buffer import Buffer, HotBuffer, ColdBuffer
from topsim.core.scheduler import Scheduler
from topsim.core.simulation import Simulation
from topsim.core.instrument import Observation, RunStatus
from topsim.user.telescope import Telescope

PIN = {}
FUNCTIONS = [Cluster.is_idle, Buffer.is_empty, Scheduler.is_idle, Telescope.is_idle, Simulation.is_finished,
             Telescope.begin_observation, Telescope.finish_observation]
META = {
    'bounds': {'C19.cluster': '3 machines, every pool vector (5^3) by prelude, then 0..4 timesteps of the real kernel, then an ingest provisioning stepped event by event',
               'C19.buffer': 'capacities and free space unbounded ints; plus capacities 10^3..10^18 holding 0..2 units (case-split)', 'C19.scheduler': 'queue length 0..2',
               'C19.telescope': '2 observations each waiting/running/finished through begin/finish_observation, demands and the array total of the telescope unbounded >= 0 and independent (an observation may demand more arrays than exist)'},
    'outside_bounds': ['more than 3 machines / 2 observations at unit level (SIMH covers trajectories)'],
    'stubs': ['FakeCfg instead of JSON config', 'Simulation object built with __new__ around the four real actors (no file I/O)'],
    'assumptions': [],
}


def cluster_truth(c):
    r = c._resources
    return len(c._tasks['running']) == 0 and len(r['occupied']) == 0 and len(r['ingest']) == 0


def cluster_q_tag(p0, p1, p2, adv):
    wit.begin()
    env, c = cluster_in_state([p0, p1, p2], busy_dur=2)
    for k in range(5):
        if c.is_idle() != cluster_truth(c):
            return 'C19/cluster-is-idle-wrong/' + ('says-idle-while-busy' if c.is_idle() else 'says-busy-while-idle')
        if not cluster_truth(c):
            wit.reach('busy-cluster-queried')
        if k >= adv:
            break
        env.run(env.now + 1)
    # inside a timestep: an ingest pipeline is provisioned and the query is asked after every single event of that
    # instant (machines are moved to the ingest pool first, the ingest tasks are registered by later events)
    g = len(c.get_available_resources())
    if g and c.check_ingest_capacity(g, 3):
        env.process(c.provision_ingest_resources(g, Obs('late', 2)))
        for _ in range(4 * g + 4):
            if env.peek() != env.now:
                break
            env.step()
            wit.reach('queried-between-events')
            if c.is_idle() != cluster_truth(c):
                return 'C19/cluster-is-idle-wrong/between-events/' + ('says-idle-while-busy' if c.is_idle() else 'says-busy-while-idle')
    return None


def cluster_q(p0: int, p1: int, p2: int, adv: int) -> bool:
    """
    pre: 0 <= p0 <= 4 and 0 <= p1 <= 4 and 0 <= p2 <= 4 and 0 <= adv <= 4
    post: _
    """
    t = cluster_q_tag(p0, p1, p2, adv)
    wit.note(t, p0=p0, p1=p1, p2=p2, adv=adv)
    return wit.verdict(t)


def mk_telescope(env, st1, st2, d1, d2, sched=None, ta=None):
    obs = [Observation('o1', 0, 2, d1, 'wf', 1), Observation('o2', 0, 2, d2, 'wf', 1)]
    tel = Telescope(env, FakeCfg(instrument=(d1 + d2 + 1 if ta is None else ta, {'o1': {'ingest_demand': 1}, 'o2': {'ingest_demand': 1}}, obs, 2)), None, sched)
    for o, st in zip(obs, (st1, st2)):
        if st >= 1:
            o.status = tel.begin_observation(o)
        if st >= 2:
            o.status = tel.finish_observation(o)
    return tel, obs


def rest_tag(hc, hf, cc, cf, qlen, st1, st2, d1, d2, p0, p1, ta=None):
    wit.begin()
    env, c = cluster_in_state([p0, p1], busy_dur=2)
    hot, cold = HotBuffer(hc, 1), ColdBuffer(cc, 1)
    hot.current_capacity, cold.current_capacity = hf, cf
    buf = Buffer(env, c, None, FakeCfg(hot=hot, cold=cold))
    sch = Scheduler(env, buf, c, None)
    for i in range(qlen):
        sch.observation_queue.append(Obs(f'q{i}', 1))
    tel, obs = mk_telescope(env, st1, st2, d1, d2, sch, ta)
    b_truth = (hf == hc and cf == cc)
    if buf.is_empty() != b_truth:
        return 'C19/buffer-is-empty-wrong'
    if sch.is_idle() != (qlen == 0):
        return 'C19/scheduler-is-idle-wrong'
    t_truth = (st1 == 2 and st2 == 2) and tel.telescope_use == 0
    if tel.telescope_use != (d1 if st1 == 1 else 0) + (d2 if st2 == 1 else 0):
        return 'C19/telescope-array-count-wrong'
    if tel.is_idle() != t_truth:
        return 'C19/telescope-is-idle-wrong'
    sim = Simulation.__new__(Simulation)
    sim.buffer, sim.cluster, sim.scheduler, sim.instrument = buf, c, sch, tel
    truth = b_truth and cluster_truth(c) and qlen == 0 and t_truth
    if truth:
        wit.reach('finished-state')
    if sim.is_finished() != truth:
        return 'C19/simulation-is-finished-wrong/' + ('says-finished' if sim.is_finished() else 'says-not-finished')
    return None


def rest(hc: int, hf: int, cc: int, cf: int, qlen: int, st1: int, st2: int, d1: int, d2: int, p0: int, p1: int, ta: int) -> bool:
    """
    pre: 0 <= hf <= hc and 0 <= cf <= cc and 0 <= qlen <= 2
    pre: 0 <= st1 <= 2 and 0 <= st2 <= 2 and d1 >= 0 and d2 >= 0
    pre: 0 <= p0 <= 2 and 0 <= p1 <= 2 and ta >= 0
    post: _
    """
    t = rest_tag(hc, hf, cc, cf, qlen, st1, st2, d1, d2, p0, p1, ta)
    wit.note(t, ta=ta, hc=hc, hf=hf, cc=cc, cf=cf, qlen=qlen, st1=st1, st2=st2, d1=d1, d2=d2, p0=p0, p1=p1)
    return wit.verdict(t)


def buf_big_tag(mag, uh, uc):
    """buffers of very different magnitudes (10^3 .. 10^18 units) holding 0..2 units in either tier: 'empty' means
    exactly full free capacity, at every scale"""
    wit.begin()
    mag, uh, uc = wit.concretize(mag, 0, 5), wit.concretize(uh, 0, 2), wit.concretize(uc, 0, 2)
    if mag >= 3 and (uh or uc):
        wit.reach('large-buffer-holding-little')
    return wit.native(_buf_big, mag, uh, uc)


def _buf_big(mag, uh, uc):
    cap = 10 ** (3 * mag + 3)
    env = simpy.Environment()
    hot, cold = HotBuffer(cap, 1), ColdBuffer(2 * cap, 1)
    hot.current_capacity, cold.current_capacity = cap - uh, 2 * cap - uc
    buf = Buffer(env, None, None, FakeCfg(hot=hot, cold=cold))
    if buf.is_empty() != (uh == 0 and uc == 0):
        return 'C19/buffer-is-empty-wrong/large-capacity'
    return None


def buf_big(mag: int, uh: int, uc: int) -> bool:
    """
    pre: 0 <= mag <= 5 and 0 <= uh <= 2 and 0 <= uc <= 2
    post: _
    """
    t = buf_big_tag(mag, uh, uc)
    wit.note(t, mag=mag, uh=uh, uc=uc)
    return wit.verdict(t)


def warmup():
    cluster_q_tag(0, 1, 2, 1)
    rest_tag(5, 5, 5, 5, 0, 2, 2, 1, 1, 0, 0)


def shards(tier, prop):
    T = 120 if tier == 'quick' else 600
    return [{'fn': 'cluster_q', 'cond_timeout': T}, {'fn': 'rest', 'cond_timeout': T}, {'fn': 'buf_big', 'cond_timeout': T},
            {'fn': 'buf_big', 'cond_timeout': 30, 'twin': True},
            {'fn': 'cluster_q', 'cond_timeout': 30, 'twin': True}, {'fn': 'rest', 'cond_timeout': 30, 'twin': True}]
