"""C05 (unit level) - a transient shortage only postpones an observation, it never blocks it forever.
Real Telescope / Scheduler / Cluster / Buffer (no workflow processing): an observation B falls due while the resource it
needs is taken for k more steps - ingest machines (every machine busy, or the ingest limit used up by a running ingest) or
hot-buffer space (promised to an observation still being ingested).  Buffer sizes and rates are unbounded symbolic ints.
Once the shortage is over B must start, and it must finish its ingest."""
import simpy
from vk import wit
from vk.kit import *
from vk.wit import concretize as cz
from topsim.core.buffer import Buffer, HotBuffer, ColdBuffer
from topsim.core.scheduler import Scheduler
from topsim.core.instrument import Observation, RunStatus
from topsim.user.telescope import Telescope

PIN = {}
FUNCTIONS = [Telescope.run, Scheduler.check_ingest_capacity, Scheduler.allocate_ingest, Cluster.check_ingest_capacity,
             Cluster.provision_ingest_resources, Buffer.check_buffer_capacity, Buffer.ingest_data_stream]
META = {
    'bounds': {'C05.shortage.machines': 2, 'C05.shortage.kinds': ['all machines busy with workflow tasks for k steps', 'ingest limit used up by a running ingest of k steps'],
               'C05.shortage.k': '1..4', 'C05.shortage.sizes': 'hot/cold capacity and both data rates unbounded ints (each observation alone fits)',
               'C05.shortage.duration_B': '1..2'},
    'outside_bounds': ['shortages longer than 4 steps', 'more than one waiting observation'],
    'stubs': ['FakeCfg instead of JSON config', 'no workflow processing (observations stay stored in the hot buffer)'],
    'assumptions': ['feasibility: each observation alone fits telescope, ingest limit, cluster and both buffers; A and B together fit the hot buffer'],
}


def shortage_tag(kind, k, dB, rA, rB, hcap, ccap, rmax):
    wit.begin()
    kind, k, dB = cz(kind, 0, 1), cz(k, 1, 4), cz(dB, 1, 2)
    if kind == 0:
        env, c = cluster_in_state([2, 2], busy_dur=k)              # both machines run a workflow task for k steps
        mi = 2
        obs = [Observation('B', 0, dB, 1, 'wf', rB)]
        pipes = {'B': {'ingest_demand': 1}}
    else:
        env, c = new_cluster(2)
        mi = 1                                                     # the limit is used up while A is being ingested
        obs = [Observation('A', 0, k, 1, 'wf', rA), Observation('B', 0, dB, 1, 'wf', rB)]
        pipes = {'A': {'ingest_demand': 1}, 'B': {'ingest_demand': 1}}
    hot, cold = HotBuffer(hcap, rmax), ColdBuffer(ccap, rmax)
    buf = Buffer(env, c, None, FakeCfg(hot=hot, cold=cold))
    sch = Scheduler(env, buf, c, None)
    tel = Telescope(env, FakeCfg(instrument=(4, pipes, obs, mi)), None, sch)
    env.process(tel.run())
    B = obs[-1]
    try:
        for step in range(k + dB + 6):
            env.run(env.now + 1)
    except Exception as ex:
        return f'C05/raises/{type(ex).__name__}/during-transient-shortage'
    wit.reach('shortage-over')
    if B.status is RunStatus.WAITING:
        return 'C05/observation-blocked-after-transient-shortage/' + ('machines-busy' if kind == 0 else 'ingest-limit')
    if B.status is not RunStatus.FINISHED or B not in hot.observations['stored']:
        return 'C05/observation-did-not-complete-after-shortage'
    if B.ast is None or B.ast > k + 2:
        return 'C05/observation-started-later-than-the-shortage-lasted'
    return None


def shortage(kind: int, k: int, dB: int, rA: int, rB: int, hcap: int, ccap: int, rmax: int) -> bool:
    """
    pre: 0 <= kind <= 1 and 1 <= k <= 4 and 1 <= dB <= 2 and 1 <= rA <= rmax and 1 <= rB <= rmax
    pre: rA * k + rB * dB < hcap and rA * k <= ccap and rB * dB <= ccap
    post: _
    """
    t = shortage_tag(kind, k, dB, rA, rB, hcap, ccap, rmax)
    wit.note(t, kind=kind, k=k, dB=dB, rA=rA, rB=rB, hcap=hcap, ccap=ccap, rmax=rmax)
    return wit.verdict(t)


def warmup():
    shortage_tag(1, 2, 1, 3, 4, 100, 100, 10)
    shortage_tag(0, 2, 1, 3, 4, 100, 100, 10)


def shards(tier, prop):
    return [{'fn': 'shortage', 'cond_timeout': 240 if tier == 'quick' else 1200, 'path_timeout': 40},
            {'fn': 'shortage', 'cond_timeout': 40, 'twin': True}]
