"""C11 - pausing and resuming is transparent.  Real Simulation.start(k) + resume(...) against one uninterrupted
start(T) on the same scenario; pause point k and second cut j are solver variables (case-split, then run natively)."""
from vk import wit, simh
from vk.wit import concretize as cz
from harness import h_sim
from topsim.core.simulation import Simulation

PIN = {}
FUNCTIONS = [Simulation.start, Simulation.resume, simh.M.Monitor.run, simh.M.Monitor.collate_events] + simh.FUNCTIONS[4:12]
META = {
    'bounds': {'C11.horizon_T': 16, 'C11.pause_k': '1..T-1', 'C11.second_cut_j': 'k..T (also as the final horizon itself)', 'C11.scenarios': 'two observations (start 0..2, durations 1..2), 2-task workflow, Batch(1,2 partitions) and Queue',
               'C11.refusals': 'start() twice (mid-run and after completion), resume() before start()'},
    'outside_bounds': ['more than two resume segments', 'horizons > 16 steps', 'output to HDF5 files'],
    'stubs': simh.STUBS, 'assumptions': [],
}
T = 16


def scenario(s2, d1, d2, da, db):
    h_sim.PIN.clear()
    h_sim.PIN.update(alg=PIN.get('alg', 'batch1'), delays=PIN.get('delays', []), s1=PIN.get('s1', 0))
    return h_sim.prof_two((s2, d1, d2, da, db, PIN.get('g2', 1), 2, 5))


def _run(k, j, s2, d1, d2, da, db):
    if PIN.get('final') == 'j':
        # the run ends at the second cut j itself (any horizon, not only one beyond completion)
        if j <= k:
            return None
        ref = simh.outputs(simh.run_public(scenario(s2, d1, d2, da, db), [j]))
        segs = [k, j]
    else:
        ref = simh.outputs(simh.run_public(scenario(s2, d1, d2, da, db), [T]))
        segs = [k] + ([j] if j > k else []) + ([T] if T > j else [])
    try:
        got = simh.outputs(simh.run_public(scenario(s2, d1, d2, da, db), segs))
    except Exception as ex:
        return f'C11/paused-run-raises/{type(ex).__name__}'
    for key in ('state', 'table', 'tasks', 'events', 'event_rows'):
        if got[key] != ref[key]:
            detail = ''
            if key == 'events':
                extra = [e for e in got['events'] if got['events'].count(e) > ref['events'].count(e)]
                detail = '/duplicated' if extra else '/missing'
            return f'C11/{key}-differs-after-pause' + detail
    return None


def pause_tag(k, j, s2, d1, d2, da, db):
    wit.begin()
    k, j = cz(k, 1, T - 1), cz(j, 1, T)
    s2, d1, d2, da, db = cz(s2, 0, 2), cz(d1, 1, 2), cz(d2, 1, 2), cz(da, 0, 2), cz(db, 0, 2)
    if j > k:
        wit.reach('two-cuts')
    return wit.native(_run, k, j, s2, d1, d2, da, db)


def pause(k: int, j: int, s2: int, d1: int, d2: int, da: int, db: int) -> bool:
    """
    pre: 1 <= k <= 15 and k <= j <= 16
    pre: 0 <= s2 <= 2 and 1 <= d1 <= 2 and 1 <= d2 <= 2 and 0 <= da <= 2 and 0 <= db <= 2
    pre: pinned(s2, d1, d2)
    post: _
    """
    t = pause_tag(k, j, s2, d1, d2, da, db)
    wit.note(t, k=k, j=j, s2=s2, d1=d1, d2=d2, da=da, db=db)
    return wit.verdict(t)


def pinned(s2, d1, d2):
    p = PIN.get('timing')
    return p is None or (s2 == p[0] and d1 == p[1] and d2 == p[2])


def _refuse(which, k):
    import simpy
    sc = scenario(1, 2, 1, 1, 1)
    sim = simh.build(sc)
    if which == 0:                                   # resume before start
        before = (sim.env.now, len(sim.env._queue), len(sim.monitor.df.rows), sim.running)
        try:
            sim.resume(until=k)
            return 'C11/resume-before-start-not-refused'
        except RuntimeError:
            pass
        if (sim.env.now, len(sim.env._queue), len(sim.monitor.df.rows), sim.running) != before:
            return 'C11/refused-resume-changed-state'
        return None
    if which == 2:
        sim.start()                                  # to completion, then the horizon k further
        sim.resume(until=sim.env.now + k)
    else:
        sim.start(runtime=k)
    before = simh.outputs(sim), len(sim.env._queue)
    try:
        sim.start(runtime=sim.env.now + 1)
        return 'C11/second-start-not-refused'
    except RuntimeError:
        pass
    if (simh.outputs(sim), len(sim.env._queue)) != before:
        return 'C11/refused-start-changed-state'
    if which == 2:
        return None
    # and the run can still be resumed to the same result as an uninterrupted one
    sim.resume(until=T)
    ref = simh.outputs(simh.run_public(sc, [T]))
    if simh.outputs(sim) != ref:
        return 'C11/run-differs-after-refused-start'
    return None


def _refuse_safe(which, k):
    try:
        return _refuse(which, k)
    except Exception as ex:
        return f'C11/refusal-scenario-raises/{type(ex).__name__}'


def refuse_tag(which, k):
    wit.begin()
    which, k = cz(which, 0, 2), cz(k, 1, 8)
    wit.reach('refusal')
    return wit.native(_refuse_safe, which, k)


def refuse(which: int, k: int) -> bool:
    """
    pre: 0 <= which <= 2 and 1 <= k <= 8
    post: _
    """
    t = refuse_tag(which, k)
    wit.note(t, which=which, k=k)
    return wit.verdict(t)


def warmup():
    _run(3, 5, 1, 2, 1, 1, 1)


def shards(tier, prop):
    out = []
    timings = [(0, 1, 1), (1, 2, 1), (2, 2, 2), (1, 1, 2)] if tier == 'quick' else [(a, b, c) for a in range(3) for b in (1, 2) for c in (1, 2)]
    for alg in ('batch1', 'queue', 'batch2'):
        for tm in timings:
            out.append({'fn': 'pause', 'pin': {'alg': alg, 'timing': list(tm)}, 'cond_timeout': 200 if tier == 'quick' else 900})
    out.append({'fn': 'pause', 'pin': {'alg': 'batch1', 'timing': [1, 2, 1], 'delays': [1, 0, 2]}, 'cond_timeout': 200})
    # the first observation starts later than the earliest pause points (nothing has happened yet at the pause)
    for alg in ('batch1', 'queue'):
        out.append({'fn': 'pause', 'pin': {'alg': alg, 'timing': [1, 2, 1], 's1': 2}, 'cond_timeout': 200 if tier == 'quick' else 900})
    for alg in ('batch1', 'queue'):
        out.append({'fn': 'pause', 'pin': {'alg': alg, 'timing': [1, 2, 1], 'final': 'j'}, 'cond_timeout': 200 if tier == 'quick' else 900})
    out.append({'fn': 'refuse', 'cond_timeout': 100})
    out.append({'fn': 'pause', 'pin': {'alg': 'queue', 'timing': [1, 2, 1]}, 'cond_timeout': 30, 'twin': True})
    return out
