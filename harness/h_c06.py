"""C06-H1 (Engine A): the real Task.do_work under the real SimPy kernel and the real Cluster poll; narrow symbolic
operands so that CrossHair's float handling of flops / cpu stays decidable.  Cross-checks Engine B's result
end-to-end: recorded aft - ast, the do_work exit instant, the task-table row, and the machine release instant."""
from vk import wit
from vk.kit import *
from topsim.core.delay import DelayModel

PIN = {}
use_fakepd()
FUNCTIONS = [Task.do_work, Task.calculate_runtime, Task.update_allocation, Cluster.allocate_task_to_cluster, Cluster.finished_task_time_data]
META = {
    'bounds': {'C06.H1': 'flops 0..12, data 0..6, cpu 1..3 and 1.5, 2.5, bw 1..2, injected delay 0..2 (values enumerated by branching)'},
    'outside_bounds': [], 'stubs': ['E4 pandas stub for the task table'], 'assumptions': [],
}


class _Extra(DelayModel):
    def __init__(self, x):
        super().__init__(0.0, 'normal', DelayModel.DelayDegree.LOW)
        self.x = x

    def generate_delay(self, r, n=100):
        return r + self.x


def e2e_tag(flops, data, cpu, bw, extra):
    wit.begin()
    flops, data = wit.concretize(flops, 0, 12), wit.concretize(data, 0, 6)
    # a machine speed that is not a whole number per timestep (Config divides by the unit) is given as a constant (2.5, 1.5: exact in binary)
    cpu = cpu if isinstance(cpu, float) else wit.concretize(cpu, 1, 3)
    bw, extra = wit.concretize(bw, 1, 2), wit.concretize(extra, 0, 2)
    env, c = new_cluster(2, [cpu, cpu], [bw, bw])
    env.run(until=2)
    t = Task('A_0_0', 0, 0, 'm0', [], flops, data, {}, _Extra(extra))
    m = c.machines[0]
    env.process(c.allocate_task_to_cluster(t, m, None, None))
    nom = max(int(flops // cpu), data // bw) if (flops > 0 or data > 0) else 0
    want_lo, want_hi = max(1, nom + extra), max(1, nom) + extra
    released = None
    for k in range(30):
        env.run(env.now + 1)
        if released is None and m in c._resources['available']:
            released = env.now - 1          # released during the step that started at env.now - 1
        if t.task_status is TaskStatus.FINISHED:
            break
    else:
        return 'C06/task-never-finishes'
    run = t.aft - t.ast
    if t.ast != 2:
        return 'C06/start-not-allocation-instant'
    if run < want_lo or run > want_hi:
        return f'C06/runtime-mismatch/got-{run}-for-nominal-{min(nom, 3)}-extra-{min(extra, 2)}'
    if nom == 0:
        wit.reach('sub-timestep-task')
    if released is None or not (t.aft - 1 <= released <= t.aft):
        return 'C06/machine-not-released-at-finish'
    table = c.finished_task_time_data()          # the task table row (pandas stub, E4)
    rec = {idx: r.get(t.id) for idx, r in zip(table.index, table.rows)}
    if rec.get('ast') != t.ast or rec.get('aft') != t.aft or rec.get('aft') - rec.get('ast') != run:
        return 'C06/task-table-row-differs'
    if extra > 0 and not t.delay_flag:
        return 'C06/delay-not-flagged'
    return None


def e2e_s_tag(flops, data, extra):
    return e2e_tag(flops, data, PIN['cpu'], PIN['bw'], extra)


def e2e_s(flops: int, data: int, extra: int) -> bool:
    """
    pre: 0 <= flops <= 12 and 0 <= data <= 6 and 0 <= extra <= 2
    post: _
    """
    t = e2e_s_tag(flops, data, extra)
    wit.note(t, flops=flops, data=data, extra=extra)
    return wit.verdict(t)


def sched_tag(flops, data, pd, extra):
    """the scheduler path: the task was planned (est, eft = est + pd) for another machine, the scheduler moves it
    (Task.update_allocation) and the cluster runs it; recorded runtime must still be work / speed of the machine it ran on"""
    wit.begin()
    from topsim.core.scheduler import Scheduler
    flops, data, pd, extra = wit.concretize(flops, 0, 12), wit.concretize(data, 0, 6), wit.concretize(pd, 0, 6), wit.concretize(extra, 0, 1)
    cpus, bws = PIN.get('cpus', [3, 1]), PIN.get('bws', [2, 1])
    env, c = new_cluster(2, cpus, bws)
    env.run(until=1)
    sch = Scheduler(env, None, c, None)
    t = Task('A_0_0', 0, pd, 'm1', [], flops, data, {}, _Extra(extra))
    if PIN.get('slow_first'):
        t.update_allocation(c.machines[1])          # first moved to the slow machine, then to the fast one
    sch._process_current_schedule({t: c.machines[0]}, {}, None)
    for k in range(40):
        env.run(env.now + 1)
        if t.task_status is TaskStatus.FINISHED:
            break
    else:
        return 'C06/task-never-finishes'
    nom = max(flops // cpus[0], data // bws[0]) if (flops > 0 or data > 0) else t.est_duration
    run = t.aft - t.ast
    if pd > nom:
        wit.reach('plan-pessimistic')
    if run < max(1, nom + extra) or run > max(1, nom) + extra:
        return f'C06/runtime-mismatch/scheduler-path/got-{min(run, 9)}-for-nominal-{min(nom, 3)}-extra-{extra}'
    return None


def sched(flops: int, data: int, pd: int, extra: int) -> bool:
    """
    pre: 0 <= flops <= 12 and 0 <= data <= 6 and 0 <= pd <= 6 and 0 <= extra <= 1
    post: _
    """
    t = sched_tag(flops, data, pd, extra)
    wit.note(t, flops=flops, data=data, pd=pd, extra=extra)
    return wit.verdict(t)


def warmup():
    sched_tag(6, 0, 5, 0)
    e2e_tag(5, 0, 2, 1, 0)


def shards(tier, prop):
    out = [{'fn': 'e2e_s', 'pin': {'cpu': c, 'bw': b}, 'cond_timeout': 240, 'path_timeout': 20} for c in (1, 2, 3) for b in (1, 2)]
    out += [{'fn': 'e2e_s', 'pin': {'cpu': c, 'bw': 1}, 'cond_timeout': 240, 'path_timeout': 20} for c in (2.5, 1.5)]      # fractional speeds
    out += [{'fn': 'sched', 'pin': {'cpus': [3, 1], 'bws': [2, 1]}, 'cond_timeout': 240}, {'fn': 'sched', 'pin': {'cpus': [4, 1], 'bws': [1, 1], 'slow_first': True}, 'cond_timeout': 240}]
    out.append({'fn': 'sched', 'pin': {'cpus': [3, 1], 'bws': [2, 1]}, 'cond_timeout': 30, 'twin': True})
    return out + [{'fn': 'e2e_s', 'pin': {'cpu': 3, 'bw': 1}, 'cond_timeout': 30, 'twin': True}]
